"""Bounded driver for C16 (never counted as proved): "Parser, decoder and encoder instances carry
no state between calls".

Differential oracle written from the property statement: for a sequence of inputs x1..xn the i-th
call on ONE instance must give exactly the outcome a FRESH, identically configured instance gives
for xi alone.  Outcome = (returned value compared structurally with classes at every depth,
`module.errors`, the instance's own `errors` attribute after the call, exception type, str(message)
(object addresses normalised) and for LexerError pos/lineno/colno).

Sections
  parsers   5 parser configurations x all sequences of length <= 3 (thorough: + sampled 4) over a pool
            of label texts (good, empty values at different lines, lexer failures, parser failures in the
            middle of a block and at the very end, dash continuations, empty text, non-ASCII, ...)
  decoders  4 decoder classes x sequences of (method, string) calls
  encoders  4 encoder classes x all sequences of length <= 3 of module descriptions (modules built fresh)
  shared    the shared default-argument objects of pvl.lexer.lexer (g=PVLGrammar(), d=PVLDecoder()) and the
            module-level instances of pvl.pvl_validate.dialects, called around failing / abandoned calls
"""
import itertools
import json
import multiprocessing as mp
import random
import re
import signal
import time
import warnings
from collections import abc

from ..harness import Section
from . import enc_modgen as G

ADDR = re.compile(r" at 0x[0-9a-fA-F]+")


class Hang(Exception):
    pass


def _alarm(signum, frame):
    raise Hang()


def guarded(fn, seconds=10):
    """Run fn() under an interval timer (a call that never returns must not hang the driver)."""
    old = signal.signal(signal.SIGALRM, _alarm)
    signal.setitimer(signal.ITIMER_REAL, seconds)
    try:
        return fn()
    finally:
        signal.setitimer(signal.ITIMER_REAL, 0)
        signal.signal(signal.SIGALRM, old)


def deep(x):
    import pvl.collections as pc
    if isinstance(x, abc.Mapping):
        pairs = list(x) if isinstance(x, pc.OrderedMultiDict) else list(x.items())
        return (type(x).__name__, [(k, deep(v)) for k, v in pairs])
    if isinstance(x, pc.Quantity):
        return ("Quantity", deep(x.value), repr(x.units))
    if isinstance(x, list):
        return ("list", [deep(v) for v in x])
    if isinstance(x, (set, frozenset)):
        return (type(x).__name__, sorted(repr(deep(v)) for v in x))
    return (type(x).__name__, ADDR.sub(" at 0x?", repr(x)))


def exc_outcome(e):
    try:
        msg = str(e)
    except RecursionError:
        msg = "<str() recursion>"
    msg = ADDR.sub(" at 0x?", msg)
    extra = None
    if hasattr(e, "lineno") and hasattr(e, "colno"):
        extra = (getattr(e, "pos", None), e.lineno, e.colno, ADDR.sub(" at 0x?", str(getattr(e, "msg", ""))))
    return ("raise", type(e).__name__, msg, extra)


ASPECTS_OK = ("kind", "module", "module.errors", "instance.errors")
ASPECTS_RAISE = ("kind", "exception-type", "exception-message", "lexer-error-position", "instance.errors")


def first_difference(a, b):
    """name of the first component in which two outcomes differ"""
    if a[0] != b[0]:
        return "kind"
    names = ASPECTS_OK if a[0] == "ok" else ASPECTS_RAISE
    for i, (x, y) in enumerate(zip(a, b)):
        if x != y:
            return names[i] if i < len(names) else f"component-{i}"
    return "length"


# ---- parsers ------------------------------------------------------------------------------------
PARSER_CFGS = ("PVLParser", "ODLParser", "ODLParser+PDS", "OmniParser", "OmniParser+ISIS")

TEXTS = [
    ("good", "a = 1\nb = two\nEND\n"),
    ("good", "GROUP = g\n  x = 1\nEND_GROUP = g\nOBJECT = o\n  y = (1, 2) <m>\n  s = {a, b}\nEND_OBJECT\nEND"),
    ("empty-value", "a =\nb = 1"),
    ("empty-value", "x = 1\ny =\nz ="),
    ("empty-value", "GROUP = g\n k =\nEND_GROUP\nq = 3\n"),
    ("empty-value", "a = 1\nb =\nEND"),
    ("lexer-fail", "a = 1\nb = \x01bad\n"),
    ("lexer-fail", "a = \"unterminated\nb = 2"),
    ("lexer-fail", "a = 1 /* open comment\nb = 2"),
    ("fail-mid-block", "GROUP = g\n a = 1\n b = (1, 2\nEND_GROUP = g\nc = 3"),
    ("fail-mid-block", "GROUP = g\n a = 1\nEND_OBJECT = g\nEND"),
    ("fail-mid-block", "a = 1 = 2"),
    ("fail-at-end", "a = 1\nb = 2\nGROUP = g"),
    ("fail-at-end", "a = 1\nb"),
    ("dash", "a = \"abc-\n   def\"\nb = long-\n  word\nEND"),
    ("empty-text", ""),
    ("non-ascii", "a = \"café\"\nb = ü\n"),
    ("good", "/* c */ a = 1 # trailing\nb = 2001-01-01T12:00:00\nc = 16#FF#\nEND\njunk after end ="),
]


def make_parser(cfg):
    import pvl.parser as pp
    import pvl.grammar as pg
    import pvl.decoder as pd
    if cfg == "PVLParser":
        g = pg.PVLGrammar()
        return pp.PVLParser(grammar=g, decoder=pd.PVLDecoder(grammar=g))
    if cfg == "ODLParser":
        g = pg.ODLGrammar()
        return pp.ODLParser(grammar=g, decoder=pd.ODLDecoder(grammar=g))
    if cfg == "ODLParser+PDS":
        g = pg.PDSGrammar()
        return pp.ODLParser(grammar=g, decoder=pd.PDSLabelDecoder(grammar=g))
    if cfg == "OmniParser":
        return pp.OmniParser()
    if cfg == "OmniParser+ISIS":
        g = pg.ISISGrammar()
        return pp.OmniParser(grammar=g, decoder=pd.OmniDecoder(grammar=g))
    if cfg == "OmniParser+Omni":
        g = pg.OmniGrammar()
        return pp.OmniParser(grammar=g, decoder=pd.OmniDecoder(grammar=g))
    raise ValueError(cfg)


def parse_outcome(p, text):
    def run():
        with warnings.catch_warnings():
            warnings.simplefilter("ignore")
            try:
                m = p.parse(text)
            except Hang:
                raise
            except Exception as e:
                return exc_outcome(e) + (repr(getattr(p, "errors", None)),)
            return ("ok", deep(m), repr(getattr(m, "errors", "<no errors attribute>")),
                    repr(getattr(p, "errors", None)))
    try:
        return guarded(run)
    except Hang:
        return ("hang", "no return within 10 s")


def parser_sequence(cfg, texts, fresh_cache=None):
    """-> None or (index, aspect, got, want)"""
    p = make_parser(cfg)
    for i, t in enumerate(texts):
        got = parse_outcome(p, t)
        if fresh_cache is not None and t in fresh_cache:
            want = fresh_cache[t]
        else:
            want = parse_outcome(make_parser(cfg), t)
            if fresh_cache is not None:
                fresh_cache[t] = want
        if got != want:
            return (i, first_difference(got, want), got, want)
    return None


def _work_parsers(args):
    cfg, seqs = args
    fresh = {}
    # the fresh outcome itself must be reproducible
    bad = []
    hangs = set()
    for i, (_, t) in enumerate(TEXTS):
        a = parse_outcome(make_parser(cfg), t)
        fresh[t] = a
        if a[0] == "hang":
            # a text on which even a fresh parser never returns cannot be sequenced (it would stall the run)
            hangs.add(i)
            bad.append(((i,), "no-return-on-fresh-instance", a, a))
            continue
        b = parse_outcome(make_parser(cfg), t)
        if a != b:
            bad.append(((i,), "fresh-instances-disagree", a, b))
    n = 0
    for seq in seqs:
        if hangs.intersection(seq):
            continue
        n += 1
        r = parser_sequence(cfg, [TEXTS[i][1] for i in seq], fresh)
        if r is not None:
            i, aspect, got, want = r
            bad.append((tuple(seq[:i + 1]), aspect, got, want))
    return cfg, n, bad


# ---- decoders -----------------------------------------------------------------------------------
DECODERS = ("PVLDecoder", "ODLDecoder", "PDSLabelDecoder", "OmniDecoder")
DEC_METHODS = ("decode_simple_value", "decode_datetime", "decode_quoted_string", "decode_decimal",
               "decode_non_decimal", "decode_unquoted_string", "decode")
DEC_STRINGS = ["1", "1.5", "abc", '"q s"', "'it'", "2001-01-01", "2001-01-01T12:00:00Z", "12:00:60", "01:02:03+05:30",
               "16#FF#", "2#+101#", "NULL", "true", "", "a b", '"dash-\n  cont  x"', "2001-366", "é", "1e", "END",
               "2001-01-01T01:02:03.1234567", "-"]


def dec_outcome(d, meth, s):
    with warnings.catch_warnings():
        warnings.simplefilter("ignore")
        try:
            v = getattr(d, meth)(s)
        except Exception as e:
            return exc_outcome(e) + (repr(getattr(d, "errors", None)),)
        return ("ok", deep(v), None, repr(getattr(d, "errors", None)))


def make_decoder(name):
    import pvl.decoder as pd
    return getattr(pd, name)()


def decoder_sequence(name, calls, fresh=None):
    d = make_decoder(name)
    for i, (meth, s) in enumerate(calls):
        got = dec_outcome(d, meth, s)
        k = (meth, s)
        if fresh is not None and k in fresh:
            want = fresh[k]
        else:
            want = dec_outcome(make_decoder(name), meth, s)
            if fresh is not None:
                fresh[k] = want
        if got != want:
            return (i, first_difference(got, want).replace("module", "value"), got, want)
    return None


def _work_decoders(args):
    name, seqs = args
    fresh = {}
    bad = []
    n = 0
    for seq in seqs:
        n += 1
        r = decoder_sequence(name, seq, fresh)
        if r is not None:
            i, aspect, got, want = r
            bad.append((tuple(tuple(c) for c in seq[:i + 1]), aspect, got, want))
    return name, n, bad


# ---- encoders -----------------------------------------------------------------------------------
ENCODERS = ("PVLEncoder", "ODLEncoder", "PDSLabelEncoder", "ISISEncoder")
MODS = [
    ("good", ["module", [["a", 1], ["b", "two words"]]]),
    ("good", ["module", [["g", ["group", [["x", 1]]]], ["o", ["object", [["y", ["list", [1, 2]]]]]]]]),
    ("refused-midway", ["module", [["a", 1], ["q", ["quantity", "abc", "m"]], ["z", 2]]]),
    ("refused-midway", ["module", [["a", 1], ["g", ["group", [["l", ["list", []]]]]], ["z", 2]]]),
    ("refused-key", ["module", [["ok", 1], ["bad key", 2]]]),
    ("refused-charset", ["module", [["a", "café 日本"], ["b", 1]]]),
    ("group-conversion", ["module", [["g", ["group", [["x", 1]]]], ["h", ["group", [["^P", 5]]]]]]),
    ("duplicate-group", ["module", [["g", ["group", [["x", 1]]]], ["g", ["group", [["y", 2]]]]]]),
    ("wrapping", ["module", [["seq", ["list", list(range(1000, 1040))]], ["t", ("long words " * 12).strip()]]]),
    ("strings", ["module", [["s", "line1\nline2"], ["t", "tab\there"], ["u", "it's"], ["n", None]]]),
    ("times", ["module", [["t", ["time", 1, 2, 3, 0, 0]], ["d", ["datetime", 2001, 1, 1, 1, 2, 3, 4000, 0]],
                          ["l", ["time", 1, 2, 3, 0, None]]]]),
    ("dict", ["dict", [["a", 1], ["d", ["dict", [["x", ["set", [1, 2]]]]]]]]),
    ("refused-type", ["module", [["a", 1], ["b", ["frozenset", [["frozenset", [1]]]]], ["c", ["list", [["list", [["list", [1]]]]]]]]]),
]


def enc_outcome(e, mdesc):
    m = G.build(mdesc)
    with warnings.catch_warnings():
        warnings.simplefilter("ignore")
        try:
            t = e.encode(m)
        except Exception as ex:
            return exc_outcome(ex)
        return ("ok", t)


def make_encoder(name):
    import pvl.encoder as pe
    with warnings.catch_warnings():
        warnings.simplefilter("ignore")
        return getattr(pe, name)()


def encoder_sequence(name, descs, fresh=None):
    e = make_encoder(name)
    for i, d in enumerate(descs):
        got = enc_outcome(e, d)
        k = G.canon(d)
        if fresh is not None and k in fresh:
            want = fresh[k]
        else:
            want = enc_outcome(make_encoder(name), d)
            if fresh is not None:
                fresh[k] = want
        if got != want:
            asp = "kind" if got[0] != want[0] else ("text" if got[0] == "ok" else first_difference(got, want))
            return (i, asp, got, want)
    return None


def _work_encoders(args):
    name, seqs = args
    fresh = {}
    bad = []
    n = 0
    for seq in seqs:
        n += 1
        r = encoder_sequence(name, [MODS[i][1] for i in seq], fresh)
        if r is not None:
            i, aspect, got, want = r
            bad.append((tuple(seq[:i + 1]), aspect, got, want))
    return name, n, bad


# ---- shared default-argument / module-level objects --------------------------------------------------
def lex_outcome(text, explicit, take=None):
    """tokens of pvl.lexer.lexer(text) (default g, d unless explicit); take=n abandons the generator"""
    import pvl.lexer as pl
    import pvl.grammar as pg
    import pvl.decoder as pd
    with warnings.catch_warnings():
        warnings.simplefilter("ignore")
        try:
            gen = pl.lexer(text, g=pg.PVLGrammar(), d=pd.PVLDecoder()) if explicit else pl.lexer(text)
            toks = []
            for i, t in enumerate(gen):
                toks.append((str(t), t.pos, type(t.grammar).__name__, type(t.decoder).__name__))
                if take is not None and i + 1 >= take:
                    # push the token back (send) and abandon the generator
                    gen.send(t)
                    break
            return ("ok", toks)
        except Exception as e:
            return exc_outcome(e)


def _work_shared(task):
    kind = task[0]
    bad = []
    n = 0
    if kind == "lexer":
        texts = [t for _, t in TEXTS] + ["a = 2#3#", "x = <unclosed"]
        fresh = {t: lex_outcome(t, explicit=True) for t in texts}
        for i, ti in enumerate(texts):
            for j, tj in enumerate(texts):
                n += 1
                first = lex_outcome(ti, explicit=False)
                lex_outcome(tj, explicit=False)
                lex_outcome(tj, explicit=False, take=2)
                third = lex_outcome(ti, explicit=False)
                for label, got in (("first-call", first), ("after-other-text", third)):
                    if got != fresh[ti]:
                        bad.append((("lexer-default-arguments", label, first_difference(got, fresh[ti])),
                                    {"texts": [ti, tj, ti]}, got, fresh[ti]))
        return kind, n, bad
    if kind == "dialect-parser":
        import pvl.pvl_validate as pv
        name = task[1]
        cfg = {"PDS3": "ODLParser+PDS", "ODL": "ODLParser", "PVL": "PVLParser", "ISIS": "OmniParser+ISIS",
               "Omni": "OmniParser+Omni"}[name]
        texts = [t for _, t in TEXTS]
        fresh = {t: parse_outcome(make_parser(cfg), t) for t in texts}
        p = pv.dialects[name]["parser"]
        for ti in texts:
            for tj in texts:
                n += 1
                for step, t in enumerate((ti, tj, ti)):
                    got = parse_outcome(p, t)
                    if got != fresh[t]:
                        bad.append(((f"pvl_validate.dialects[{name}].parser", f"call-{step + 1}",
                                     first_difference(got, fresh[t])), {"texts": [ti, tj, ti][:step + 1]},
                                    got, fresh[t]))
                        break
        return kind + ":" + name, n, bad
    if kind == "dialect-encoder":
        import pvl.pvl_validate as pv
        import pvl.encoder as pe
        import pvl.grammar as pg
        import pvl.decoder as pd
        name = task[1]

        def fresh_enc():
            with warnings.catch_warnings():
                warnings.simplefilter("ignore")
                if name == "PDS3":
                    g = pg.PDSGrammar()
                    return pe.PDSLabelEncoder(grammar=g, decoder=pd.PDSLabelDecoder(grammar=g))
                if name == "ODL":
                    g = pg.ODLGrammar()
                    return pe.ODLEncoder(grammar=g, decoder=pd.ODLDecoder(grammar=g))
                if name == "PVL":
                    g = pg.PVLGrammar()
                    return pe.PVLEncoder(grammar=g, decoder=pd.PVLDecoder(grammar=g))
                if name == "ISIS":
                    g = pg.ISISGrammar()
                    return pe.ISISEncoder(grammar=g, decoder=pd.OmniDecoder(grammar=g))
                g = pg.OmniGrammar()
                return pe.PVLEncoder(grammar=g, decoder=pd.OmniDecoder(grammar=g))
        fresh = {G.canon(d): enc_outcome(fresh_enc(), d) for _, d in MODS}
        e = pv.dialects[name]["encoder"]
        for _, di in MODS:
            for _, dj in MODS:
                n += 1
                for step, d in enumerate((di, dj, di)):
                    got = enc_outcome(e, d)
                    want = fresh[G.canon(d)]
                    if got != want:
                        bad.append(((f"pvl_validate.dialects[{name}].encoder", f"call-{step + 1}",
                                     "kind" if got[0] != want[0] else "text-or-message"),
                                    {"modules": [G.canon(x) for x in [di, dj, di][:step + 1]]}, got, want))
                        break
        return kind + ":" + name, n, bad
    raise ValueError(kind)


# ---- assembling ----------------------------------------------------------------------------------
def all_seqs(n_items, maxlen):
    out = []
    for ln in range(1, maxlen + 1):
        out += list(itertools.product(range(n_items), repeat=ln))
    return out


def split(seqs, parts):
    parts = max(1, parts)
    return [seqs[i::parts] for i in range(parts) if seqs[i::parts]]


def sections(ctx):
    out = []
    rng = random.Random(ctx.seed)
    jobs = ctx.jobs

    # parsers
    t0 = time.time()
    if ctx.thorough:
        seqs = all_seqs(len(TEXTS), 3)
        extra = set()
        while len(extra) < 20000:
            extra.add(tuple(rng.randrange(len(TEXTS)) for _ in range(rng.choice([4, 4, 5]))))
        seqs += sorted(extra)
    else:
        seqs = all_seqs(len(TEXTS), 2)
        extra = set()
        while len(extra) < 1000:
            extra.add(tuple(rng.randrange(len(TEXTS)) for _ in range(3)))
        seqs += sorted(extra)
    s = Section("parsers", "bounded", bounded=True,
                rule=f"{len(PARSER_CFGS)} parser configurations x all sequences of length <= {3 if ctx.thorough else 2} "
                     f"{'' if ctx.thorough else '+ 1000 seeded sequences of length 3 '}over {len(TEXTS)} label texts "
                     "(good, empty values at different lines, lexer failures, parser failures mid-block and at the very "
                     "end, dash continuations, empty text, non-ASCII)" + (" + 20000 seeded sequences of length 4..5" if ctx.thorough else "")
                     + "; each step on ONE instance is compared with a fresh instance (module with classes at depth, "
                     "module.errors, parser.errors, exception type/message, LexerError pos/lineno/colno); distinct = "
                     "(configuration, sequence)",
                bounds={"texts": len(TEXTS), "exhaustive_len": 3 if ctx.thorough else 2, "sequences": len(seqs),
                        "configs": list(PARSER_CFGS)})
    tasks = [(cfg, part) for cfg in PARSER_CFGS for part in split(seqs, max(1, jobs // 2))]
    with mp.get_context("fork").Pool(jobs) as pool:
        res = pool.map(_work_parsers, tasks, chunksize=1)
    found = {}
    for cfg, n, bad in res:
        s.evaluations += n
        for seq, aspect, got, want in bad:
            prev = TEXTS[seq[-2]][0] if len(seq) >= 2 else "nothing"
            key = f"C16:{cfg}:{aspect}:after-{prev}"
            cand = (len(seq), seq, got, want, cfg)
            if key not in found or cand[:2] < found[key][:2]:
                found[key] = cand
    for cfg in PARSER_CFGS:
        s.distinct.update((cfg, q) for q in seqs)
    for key in sorted(found):
        ln, seq, got, want, cfg = found[key]
        texts = [TEXTS[i][1] for i in seq]
        s.violation(key, f"{cfg}: after parsing {texts[:-1]!r} on one instance, parse({texts[-1:]!r}) gives "
                         f"{_short(got)}, a fresh instance gives {_short(want)}",
                    {"kind": "parser", "cls": cfg, "texts": texts})
    s.samples = [{"cfg": "OmniParser", "texts": [TEXTS[2][1], TEXTS[0][1]]},
                 {"cfg": "ODLParser+PDS", "texts": [TEXTS[9][1], TEXTS[1][1], TEXTS[3][1]]}]
    s.exhaustive = True
    s.seconds = time.time() - t0
    out.append(s)

    # decoders
    t0 = time.time()
    calls = [(m, x) for m in DEC_METHODS for x in DEC_STRINGS]
    core = calls if ctx.thorough else [c for c in calls if c[0] in DEC_METHODS[:3]]
    dseqs = [(c,) for c in calls] + [(a, b) for a in core for b in core]
    n3 = 200000 if ctx.thorough else 4000
    dseqs += [tuple(rng.choice(calls) for _ in range(rng.choice([2, 3, 3]))) for _ in range(n3)]
    s = Section("decoders", "bounded", bounded=True,
                rule=f"{len(DECODERS)} decoder classes x all sequences of length <= 2 over {len(core)} (method, string) calls "
                     f"({'all' if ctx.thorough else 'decode_simple_value / decode_datetime / decode_quoted_string'} x "
                     f"{len(DEC_STRINGS)} strings) and {n3} seeded sequences of length 2..3 over all {len(calls)} calls "
                     f"({len(DEC_METHODS)} decode methods); "
                     "value with type, exception type and message vs a fresh instance",
                bounds={"methods": list(DEC_METHODS), "strings": len(DEC_STRINGS), "sampled_len3": n3})
    tasks = [(d, part) for d in DECODERS for part in split(dseqs, max(1, jobs // 2))]
    with mp.get_context("fork").Pool(jobs) as pool:
        res = pool.map(_work_decoders, tasks, chunksize=1)
    found = {}
    for name, n, bad in res:
        s.evaluations += n
        for seq, aspect, got, want in bad:
            key = f"C16:{name}:{seq[-1][0]}:{aspect}:after-{seq[-2][0] if len(seq) > 1 else 'nothing'}"
            cand = (len(seq), seq, got, want, name)
            if key not in found or cand[:2] < found[key][:2]:
                found[key] = cand
    for d in DECODERS:
        s.distinct.update((d, q) for q in set(dseqs))
    for key in sorted(found):
        ln, seq, got, want, name = found[key]
        s.violation(key, f"{name}: after {list(seq[:-1])!r} on one instance, {seq[-1][0]}({seq[-1][1]!r}) gives "
                         f"{_short(got)}, a fresh instance gives {_short(want)}",
                    {"kind": "decoder", "cls": name, "calls": [list(c) for c in seq]})
    s.samples = [{"decoder": "ODLDecoder", "calls": [list(dseqs[700][0]), list(dseqs[700][1])]}]
    s.seconds = time.time() - t0
    out.append(s)

    # encoders
    t0 = time.time()
    eseqs = all_seqs(len(MODS), 3)
    s = Section("encoders", "bounded", bounded=True,
                rule=f"{len(ENCODERS)} encoder classes x all sequences of length <= 3 over {len(MODS)} module descriptions "
                     "(good, refused midway, refused for key / character set / type, PDS group conversion, duplicate group "
                     "names, wrapping, strings, times, plain dict); modules are built fresh for every call; text or "
                     "exception type/message vs a fresh encoder",
                bounds={"modules": len(MODS), "max_len": 3})
    tasks = [(e, part) for e in ENCODERS for part in split(eseqs, max(1, jobs // 4))]
    with mp.get_context("fork").Pool(jobs) as pool:
        res = pool.map(_work_encoders, tasks, chunksize=1)
    found = {}
    for name, n, bad in res:
        s.evaluations += n
        for seq, aspect, got, want in bad:
            prev = MODS[seq[-2]][0] if len(seq) >= 2 else "nothing"
            key = f"C16:{name}:{aspect}:after-{prev}"
            cand = (len(seq), seq, got, want, name)
            if key not in found or cand[:2] < found[key][:2]:
                found[key] = cand
    for e in ENCODERS:
        s.distinct.update((e, q) for q in eseqs)
    for key in sorted(found):
        ln, seq, got, want, name = found[key]
        s.violation(key, f"{name}: after encoding modules {[MODS[i][0] for i in seq[:-1]]!r} on one instance, "
                         f"encode({G.canon(MODS[seq[-1]][1])[:100]}) gives {_short(got)}, a fresh instance gives {_short(want)}",
                    {"kind": "encoder", "cls": name, "modules": [G.canon(MODS[i][1]) for i in seq]})
    s.samples = [{"encoder": "PDSLabelEncoder", "modules": [MODS[2][1], MODS[0][1]]}]
    s.exhaustive = True
    s.seconds = time.time() - t0
    out.append(s)

    # shared objects
    t0 = time.time()
    s = Section("shared-objects", "bounded", bounded=True,
                rule="pvl.lexer.lexer called with its shared default arguments (g=PVLGrammar(), d=PVLDecoder()): for all "
                     "ordered pairs of texts, tokens of t_i before and after lexing t_j completely and after abandoning a "
                     "lexer of t_j after two tokens with a pushed-back token, vs explicit fresh arguments; the module-level "
                     "parser and encoder instances of pvl.pvl_validate.dialects (5 dialects): all [x_i, x_j, x_i] vs fresh "
                     "equivalents; each task in its own process",
                bounds={"texts": len(TEXTS) + 2, "modules": len(MODS), "dialects": 5})
    tasks = [("lexer",)] + [("dialect-parser", d) for d in ("PDS3", "ODL", "PVL", "ISIS", "Omni")] \
        + [("dialect-encoder", d) for d in ("PDS3", "ODL", "PVL", "ISIS", "Omni")]
    with mp.get_context("fork").Pool(min(jobs, len(tasks)), maxtasksperchild=1) as pool:
        res = pool.map(_work_shared, tasks, chunksize=1)
    for kind, n, bad in res:
        s.evaluations += n
        s.distinct.update((kind, i) for i in range(n))
        for ident, data, got, want in bad:
            key = "C16:" + ":".join(ident)
            d = dict(data)
            d["kind"] = "shared"
            d["object"] = ident[0]
            s.violation(key, f"{ident[0]} ({ident[1]}): inputs {_short(data)} give {_short(got)}, fresh objects give "
                             f"{_short(want)}", d)
    s.samples = [{"object": "pvl.lexer.lexer defaults", "texts": [TEXTS[0][1], TEXTS[6][1], TEXTS[0][1]]}]
    s.exhaustive = True
    s.seconds = time.time() - t0
    out.append(s)
    return out


def _short(x):
    r = repr(x)
    return r if len(r) < 260 else r[:257] + "..."


def replay(data):
    kind = data.get("kind")
    if kind is None and "texts" in data and "cls" in data:
        kind = "parser"                         # witness style of the older finding
    if kind == "parser":
        cfg = data["cls"]
        if cfg not in PARSER_CFGS + ("OmniParser+Omni",):
            return None
        r = parser_sequence(cfg, list(data["texts"]))
        if r is None:
            return None
        i, aspect, got, want = r
        return (f"{cfg}: call {i + 1} of the sequence {data['texts']!r} on one instance differs from a fresh instance in "
                f"{aspect}: {_short(got)} vs {_short(want)}")
    if kind == "decoder":
        r = decoder_sequence(data["cls"], [tuple(c) for c in data["calls"]])
        if r is None:
            return None
        i, aspect, got, want = r
        return f"{data['cls']}: call {i + 1} of {data['calls']!r} differs from a fresh instance in {aspect}: {_short(got)} vs {_short(want)}"
    if kind == "encoder":
        r = encoder_sequence(data["cls"], [json.loads(m) if isinstance(m, str) else m for m in data["modules"]])
        if r is None:
            return None
        i, aspect, got, want = r
        return f"{data['cls']}: call {i + 1} differs from a fresh instance in {aspect}: {_short(got)} vs {_short(want)}"
    if kind == "shared":
        obj = data.get("object", "")
        if obj.startswith("lexer"):
            ti, tj = data["texts"][0], data["texts"][1]
            want = lex_outcome(ti, explicit=True)
            first = lex_outcome(ti, explicit=False)
            lex_outcome(tj, explicit=False)
            lex_outcome(tj, explicit=False, take=2)
            third = lex_outcome(ti, explicit=False)
            if first != want or third != want:
                return f"pvl.lexer.lexer with default arguments: {_short(first)} / {_short(third)} vs fresh {_short(want)}"
            return None
        m = re.match(r"pvl_validate\.dialects\[(\w+)\]\.(parser|encoder)", obj)
        if not m:
            return None
        import pvl.pvl_validate as pv
        name, what = m.group(1), m.group(2)
        if what == "parser":
            cfg = {"PDS3": "ODLParser+PDS", "ODL": "ODLParser", "PVL": "PVLParser", "ISIS": "OmniParser+ISIS",
                   "Omni": "OmniParser+Omni"}[name]
            p = pv.dialects[name]["parser"]
            for t in data["texts"]:
                got = parse_outcome(p, t)
                want = parse_outcome(make_parser(cfg), t)
                if got != want:
                    return f"pvl_validate.dialects[{name}].parser: {_short(got)} vs fresh {_short(want)}"
            return None
        res = _work_shared(("dialect-encoder", name))
        return (f"pvl_validate.dialects[{name}].encoder: " + _short(res[2][0][2:])) if res[2] else None
    return None
