"""Bounded driver for C06 — loaders terminate and fail only with the documented error types.

Oracle (independent of the library): the property itself — for every text and each of the five
parser configurations the load must return or raise pvl.exceptions.LexerError / ParseError
within a step budget of 50*(len(text)+10) token-stream operations (every next/send/throw on the
lexer generator is counted by a proxy handed to the parser as `lexer_fn`), inside a worker
process guarded by a per-load alarm and a per-batch watchdog (a hung batch is killed and
bisected down to the input).

Input spaces: (1) all strings up to a length bound over a PVL-significant alphabet;
(2) statement-shaped templates with holes filled from a token pool; (3) tests/data (text part)
under token-level mutation and truncation at token and character positions.
"""
import glob
import itertools
import multiprocessing as mp
import os
import random
import re
import time

from ..harness import Section, REPO
from . import c0506_common as K

FULL = ["a", "E", "N", "D", "1", "-", "+", ".", "#", ":", '"', "'", "(", ")", "{", "}", ",", "=", ";",
        "<", ">", "/", "*", " ", "\n", "\x1a", "\u00e9"]       # + a control character and a non-ASCII letter (not in every character set)
REDUCED = ["a", "1", "=", "(", ")", "{", "}", ",", '"', ";", " ", "<", "\x1a", "\u00e9"]

POOL_QUICK = ["a", "1", "=", ",", "(", ")", "{", "}", '"', "'", '"s"', "END", "END_GROUP", "GROUP",
              "<m>", ";", "/*", "*/", "#", "", "(1)", "2001-01-01T12:00+1", "2001-01-01-1",
              "12:00:60+1"]
POOL_MORE = ["-2.5", "16#FF#", "NULL", "END_OBJECT", "OBJECT", "BEGIN_OBJECT", "<", ">", "/* c */", "-",
             "12:00:60", "\n", "1e", "+", "{1}"]

T1 = ["\1", "a = \1", "a = \1 END", "a = 1 \1 END", "a = \1\nb = 2", "GROUP = g \1 END_GROUP",
      "GROUP = g a = \1 END_GROUP", "a = {\1}", "a = (\1", "a = {\1", 'a = "\1', "a = 1 <\1",
      "a = 1 /* \1", "GROUP = \1", "\1 = g a = 1 END_GROUP", "a = (1, \1) <m>", "a = 1 \1", "a =\1",
      "a = 1;\1", "a = \1-\nb", "GROUP = g a = 1 END_GROUP = \1", "a = (1 \1 2)", "a = 1 <m> \1"]
T2 = ["\1 \2", "a = \1 \2", "\1 = \2", "a = (\1, \2", "a = (\1, \2)", "a = (\1 \2)", "a = {\1, \2}",
      "a = \1 <\2>", "GROUP = \1 \2 END_GROUP", "GROUP = g \1 END_GROUP = \2", "\1 = g a = 1 \2",
      "a = ((\1), {\2})", "GROUP = g a = \1 \2", "a = 1 \1 b = 2 \2",
      "OBJECT = o GROUP = g \1 END_GROUP \2 END_OBJECT", "a = '\1 \2", "a = 1 /* \1 */ \2", "a\1=\2"]
T3 = ["\1 \2 \3", "\1 = \2 = \3", "a = \1 \2 \3", "BEGIN_OBJECT = \1 \2 END_OBJECT = \3",
      "\1 = g a = 1 \2 = \3", "GROUP = \1 \2 \3", "a = (\1, \2 \3", "a = \1 <\2> \3"]
T3_QUICK = T3[:2]

REPLACEMENTS = ["=", ",", "(", ")", "{", "}", '"', "END", "END_GROUP", "END_OBJECT", "GROUP", "OBJECT",
                "x", "1", "<m>", ";", "/*", "#"]

BATCH_TIMEOUT = 180.0


# ---- worker ----------------------------------------------------------------------------
def work(texts):
    """All five configurations on each text; mergeable summary."""
    n = 0
    tally = {}
    bad = {}      # (config, exc, frame, message class) -> (text, msg): shortest text
    spin = {}     # config -> (text, how)
    for text in texts:
        for c in K.CONFIGS:
            o = K.outcome(c, text)
            n += 1
            k = (c, o[0] if o[0] != "err" else o[1])
            tally[k] = tally.get(k, 0) + 1
            if o[0] == "bad":
                g = (c, o[1], o[2], norm_msg(o[3]))
                if g not in bad or (len(text), text) < (len(bad[g][0]), bad[g][0]):
                    bad[g] = (text, o[3])
            elif o[0] == "spin":
                if c not in spin or (len(text), text) < (len(spin[c][0]), spin[c][0]):
                    spin[c] = (text, o[1])
    return {"n": n, "tally": tally, "bad": bad, "spin": spin}


def norm_msg(msg):
    """Exception message without its quoted parts and numbers (part of the group identity)."""
    return re.sub(r"'[^']*'|\"[^\"]*\"|\d+", "_", msg)[:60]


def shape(text):
    """Character-class shape of a minimal input: digits -> 9, lower -> a, upper -> A, runs collapsed."""
    out = []
    for ch in text:
        c = "9" if ch.isdigit() else "a" if ch.islower() else "A" if ch.isupper() else ch
        if not out or out[-1] != c or c not in "9aA":
            out.append(c)
    return "".join(out)


def route_work(texts):
    """pvl.loads(text) itself against the step-budgeted stand-in OmniParser(lexer_fn=...)."""
    diff = []
    for text in texts:
        a = K.outcome("default", text, direct=True)
        b = K.outcome("default", text)
        if a[:2] != b[:2]:
            diff.append((text, a, b))
    return {"n": len(texts), "diff": diff}


def merge(results):
    out = {"n": 0, "tally": {}, "bad": {}, "spin": {}}
    for r in results:
        out["n"] += r["n"]
        for k, v in r["tally"].items():
            out["tally"][k] = out["tally"].get(k, 0) + v
        for g, (text, msg) in r["bad"].items():
            if g not in out["bad"] or (len(text), text) < (len(out["bad"][g][0]), out["bad"][g][0]):
                out["bad"][g] = (text, msg)
        for c, (text, how) in r["spin"].items():
            if c not in out["spin"] or (len(text), text) < (len(out["spin"][c][0]), out["spin"][c][0]):
                out["spin"][c] = (text, how)
    return out


# ---- input spaces ------------------------------------------------------------------------
def strings_upto(alphabet, L):
    for n in range(0, L + 1):
        for tup in itertools.product(alphabet, repeat=n):
            yield "".join(tup)


def exhaustive_inputs(thorough):
    lf, lr = (4, 5) if thorough else (3, 4)
    seen = set(strings_upto(FULL, lf))
    out = list(seen)
    for s in strings_upto(REDUCED, lr):
        if len(s) > lf:          # shorter ones are already in the full-alphabet set
            out.append(s)
    out.sort(key=lambda s: (len(s), s))
    return out, {"alphabet": "".join(FULL), "max_len_full_alphabet": lf,
                 "reduced_alphabet": "".join(REDUCED), "max_len_reduced_alphabet": lr}


def template_inputs(thorough):
    pool = POOL_QUICK + (POOL_MORE if thorough else [])
    out = set()
    for t in T1:
        for x in pool:
            out.add(t.replace("\1", x))
    for t in T2:
        for x in pool:
            for y in pool:
                out.add(t.replace("\1", x).replace("\2", y))
    for t in (T3 if thorough else T3_QUICK):
        for x in pool:
            for y in pool:
                for z in pool:
                    out.add(t.replace("\1", x).replace("\2", y).replace("\3", z))
    if thorough:                     # the same shapes without the blanks
        for s in list(out):
            if len(s) <= 14:
                out.add(s.replace(" ", ""))
    out = sorted(out, key=lambda s: (len(s), s))
    return out, {"pool": len(pool), "templates": len(T1) + len(T2) + len(T3 if thorough else T3_QUICK)}


TOKEN_RE = re.compile(r'"[^"]*"?|\'[^\']*\'?|/\*.*?\*/|<[^<>\n]*>?|[=,(){};]|[^\s=,(){};"\'<]+|\s+', re.S)


def split_tokens(text):
    """Mutation tokenizer (not an oracle): quoted strings, comments, units, punctuation, words,
    white-space runs.  ''.join(split_tokens(t)) == t."""
    toks = TOKEN_RE.findall(text)
    assert "".join(toks) == text
    return toks


def corpus_files():
    files = []
    for p in sorted(glob.glob(os.path.join(REPO, "tests", "data", "**", "*"), recursive=True)):
        if os.path.isfile(p):
            with open(p, "rb") as fh:
                t = fh.read().decode("latin-1")
            if "\x00" in t:                       # attached binary data: keep the label text only
                t = t[:t.index("\x00")]
            files.append((os.path.relpath(p, REPO), t))
    return files


def corpus_inputs(thorough, rng):
    """-> list of texts, bounds.  Per file: every token-level mutation and every truncation in the
    thorough tier; a seeded sample bounded by a per-file character budget in the quick tier."""
    budget = None if thorough else 25000
    out = set()
    per_file = {}
    for name, text in corpus_files():
        toks = split_tokens(text)
        idx = [i for i, t in enumerate(toks) if not t.isspace()]
        muts = [text]
        for j, i in enumerate(idx):
            muts.append("".join(toks[:i] + toks[i + 1:]))                       # delete
            muts.append("".join(toks[:i + 1] + [" "] + toks[i:]))               # duplicate
            if j + 1 < len(idx):
                k = idx[j + 1]
                muts.append("".join(toks[:i] + [toks[k]] + toks[i + 1:k] + [toks[i]] + toks[k + 1:]))  # swap
            for r in REPLACEMENTS:
                if r != toks[i]:
                    muts.append("".join(toks[:i] + [r] + toks[i + 1:]))         # replace
            muts.append("".join(toks[:i]))                                      # truncate before
            muts.append("".join(toks[:i + 1]))                                  # truncate after
        cuts = [text[:p] for p in range(len(text))]
        muts = sorted(set(muts))
        cuts = sorted(set(cuts) - set(muts))
        total = len(muts) + len(cuts)
        if budget is not None:
            k = max(6, budget // max(1, len(text)))
            if len(muts) > k:
                muts = rng.sample(muts, k)
            k2 = max(3, k // 3)
            if len(cuts) > k2:
                cuts = rng.sample(cuts, k2)
        per_file[name] = (len(muts) + len(cuts), total)
        out.update(muts)
        out.update(cuts)
    out = sorted(out, key=lambda s: (len(s), s))
    return out, {"files": len(per_file), "mutants_run": sum(a for a, _ in per_file.values()),
                 "mutants_possible": sum(b for _, b in per_file.values()),
                 "replacement_tokens": len(REPLACEMENTS)}


def cost_batches(texts, target_chars, max_items):
    """Batches of roughly equal total length."""
    batches, cur, c = [], [], 0
    for t in texts:
        cur.append(t)
        c += len(t) + 40
        if c >= target_chars or len(cur) >= max_items:
            batches.append(cur)
            cur, c = [], 0
    if cur:
        batches.append(cur)
    return batches


# ---- sections ---------------------------------------------------------------------------
def _run(name, rule, bounds, texts, ctx, exhaustive, target_chars, max_items):
    s = Section(name, "bounded", bounded=True, rule=rule, bounds=bounds)
    t0 = time.time()
    batches = cost_batches(texts, target_chars, max_items)
    results, hung = K.run_batches(work, batches, ctx.jobs, BATCH_TIMEOUT)
    m = merge(results)
    s.evaluations = m["n"]
    s.distinct = set(range(m["n"]))            # texts are de-duplicated; each (text, config) is one case
    s.samples = [{"text": t, "configs": list(K.CONFIGS)} for t in (texts[len(texts) // 3], texts[len(texts) // 2], texts[-1])]
    s.exhaustive = exhaustive and not hung
    s.bounds["texts"] = len(texts)
    s.notes.append("outcomes: " + ", ".join(f"{c}/{o}={n}" for (c, o), n in sorted(m["tally"].items())))
    for text in hung:                           # the watchdog had to kill the worker
        for c in K.CONFIGS:
            r = K._probe(mp.get_context("fork"), _one, [(c, text)], 30.0)
            s.evaluations += 1
            if r is None:
                m["spin"].setdefault(c, (text, KILLED))
            elif r[1][0][0] == "spin":
                m["spin"].setdefault(c, (text, r[1][0][1]))
            elif r[1][0][0] == "bad":
                o = r[1][0]
                m["bad"].setdefault((c, o[1], o[2], norm_msg(o[3])), (text, o[3]))
    s.seconds = time.time() - t0
    return s, m


def _one(items):
    return [K.outcome(c, t) for c, t in items]


def _minimise_bad(config, exc, frame, nmsg, text):
    def pred(t):
        o = K.outcome(config, t)
        return o[0] == "bad" and o[1] == exc and o[2] == frame and norm_msg(o[3]) == nmsg
    return K.ddmin(text, pred)


KILLED = "worker process killed after the batch time-out"


def _minimise_spin(config, text, how):
    if how == KILLED:                            # neither budget nor alarm stopped it: never run it in the parent
        return text

    def pred(t):
        return K.outcome(config, t, alarm=3.0)[0] == "spin"
    return K.ddmin(text, pred, max_tests=400)


def sections(ctx):
    rng = random.Random(ctx.seed)
    th = ctx.thorough
    only = getattr(ctx, "only", None)
    plan = []
    texts, b = exhaustive_inputs(th)
    plan.append(("exhaustive-strings",
                 "every string up to the length bound over the alphabet (full alphabet to max_len_full, reduced "
                 "alphabet one longer) x 5 parser configurations, each load under a step budget of 50*(len+10) "
                 "token-stream operations, a per-load alarm and a per-batch watchdog; distinct = (string, configuration)",
                 b, texts, True, 10 ** 9, 3000))
    texts, b = template_inputs(th)
    plan.append(("templates",
                 "statement-shaped templates (assignment, block, sequence, set, units, quoted, comment, chained '=') with "
                 "1-3 holes filled with every combination from the token pool x 5 configurations; same budgets",
                 b, texts, True, 10 ** 9, 2500))
    texts, b = corpus_inputs(th, rng)
    plan.append(("corpus-mutations",
                 "tests/data/**/* (label text) x {delete, duplicate, swap-with-next, replace by each of the replacement "
                 "tokens, truncate before/after} at token positions and truncation at character positions "
                 "(thorough: all; quick: seeded sample per file) x 5 configurations; same budgets",
                 b, texts, th, 120000, 1500))
    out = []
    groups = {}       # (config, exc, frame) -> list of (section, text, msg)
    spins = {}        # config -> list of (section, text, how)
    for name, rule, bounds, texts, exh, tc, mi in plan:
        if only and only not in name:
            continue
        s, m = _run(name, rule, bounds, texts, ctx, exh, tc, mi)
        out.append(s)
        for g, (text, msg) in m["bad"].items():
            groups.setdefault(g, []).append((s, text, msg))
        for c, (text, how) in m["spin"].items():
            spins.setdefault(c, []).append((s, text, how))

    # stand-in check: the budgeted OmniParser(lexer_fn=...) behaves as pvl.loads(text) does
    if not only or "route" in only:
        s = Section("default-route", "bounded", bounded=True,
                    rule="pvl.loads(text) itself against the step-budgeted stand-in OmniParser(lexer_fn=counting proxy): "
                         "same outcome class and exception type on every string of length <= 2 and on a seeded template sample",
                    bounds={"max_len": 2, "template_sample": 1500 if th else 300})
        t0 = time.time()
        rt = list(strings_upto(FULL, 2)) + rng.sample(template_inputs(False)[0], 1500 if th else 300)
        results, hung = K.run_batches(route_work, K.chunks(rt, 150), ctx.jobs, BATCH_TIMEOUT)
        diffs = [d for r in results for d in r["diff"]]
        if diffs or hung:
            raise RuntimeError(f"C06 driver: the budgeted stand-in differs from pvl.loads on {diffs[:3]!r} / hung {hung[:3]!r}")
        s.evaluations = len(rt)
        s.distinct = set(rt)
        s.samples = [{"text": rt[700]}]
        s.exhaustive = False
        s.seconds = time.time() - t0
        out.append(s)

    # one violation per (configuration, exception type, raising function, message class), on the smallest
    # witness; the key carries the character-class shape of the minimised input
    for (config, exc, frame, nmsg), wit in sorted(groups.items()):
        cands = []
        for s, text, msg in wit:
            cands.append((_minimise_bad(config, exc, frame, nmsg, text), text, msg))
        mn, orig, msg = min(cands, key=lambda c: (len(c[0]), c[0]))
        key = f"C06:{config}:{exc}:{frame}:{shape(mn)}"
        what = (f"{config} load of {mn!r} raises {exc} in {frame} ({msg}); expected a module, LexerError or ParseError")
        for s, text, _ in wit:
            s.violation(key, what, {"text": mn, "config": config, "exception": exc, "frame": frame, "found_as": text})
    for config, wit in sorted(spins.items()):
        cands = [(_minimise_spin(config, text, how), text, how) for _, text, how in wit]
        mn, orig, how = min(cands, key=lambda c: (len(c[0]), c[0]))
        if how != KILLED:
            o = K.outcome(config, mn, alarm=3.0)
            how = o[1] if o[0] == "spin" else how
        key = f"C06:{config}:spin:{shape(mn)}"
        what = f"{config} load of {mn!r} does not terminate within the budget ({how}); expected a result"
        for s, text, _ in wit:
            s.violation(key, what, {"text": mn, "config": config, "found_as": text, "spin": True})
    return out


def replay(data):
    text, config = data["text"], data.get("config", "default")
    r = K._probe(mp.get_context("fork"), _one, [(config, text)], 60.0)
    if r is None:
        return f"{config} load of {text!r} does not return (process killed after 60 s)"
    o = r[1][0]
    if o[0] == "spin":
        return f"{config} load of {text!r} does not terminate within the budget ({o[1]})"
    if o[0] == "bad":
        return f"{config} load of {text!r} raises {o[1]} in {o[2]} ({o[3]}); expected a module, LexerError or ParseError"
    return None
