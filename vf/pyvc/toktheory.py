"""T_tok: the token-stream ghost model used for pvl/parser.py.

Ghost state of the lazy lexer generator as the parser sees it:
    n, tok(i)      an arbitrary token sequence tok(0..n)
    lexfail        an arbitrary index at which the lazy lexer raises LexerError instead of
                   producing token number lexfail (lexfail > n: never)
    cur            number of tokens taken from the lexer so far
    pbf, pbt       one-slot push-back (what tokens.send(t) stores)
    live, started  generator not finished / has yielded at least once
Protocol (each fact confirmed on the real pvl.lexer.lexer generator, see DESIGN.md App. A):
    next   : push-back first; finished -> StopIteration; cur == lexfail -> LexerError (finished);
             cur >= n -> StopIteration (finished); else tok(cur), cur += 1, started
    send(t): requires live, started, empty push-back (a second send loses both tokens; send to a
             finished generator raises StopIteration) -- an OBLIGATION at every call site
    throw  : live and started -> LexerError (every yield is inside the lexer's try);
             otherwise the plain ValueError comes back -- the call-site obligation is live & started
Token predicates (is_WSC, is_parameter_name, ...) are uninterpreted predicates of the token
text; decode_simple_value / decode_quantity / frozenset() are nondeterministic (value or the
exception they may raise)."""
import ast

import z3

from .core import (Conc, Z, TupV, ExcV, ObjV, BoundM, FuncV, OPAQUE_STR, OpaqueStr, PyRaise,
                   Untranslatable, PathEnd, fresh, EXC_BASES, _Break, _Continue)
from .objtheory import ObjTheory, sval, S, I, B, casefold, cnt, rfind, find, lit, lit_facts

SeqS = z3.SeqSort(S)
tokat = z3.Function("tok", I, S)
N = z3.Int("n_tokens")
LEXFAIL = z3.Int("lexfail")
isWSC = z3.Function("is_WSC", S, B)
isParam = z3.Function("is_parameter_name", S, B)
isEndStmt = z3.Function("is_end_statement", S, B)
isDelim = z3.Function("is_delimiter", S, B)
memcf = z3.Function("memcf", SeqS, S, B)       # some element of the sequence case-folds to x
AGGKEYS = z3.Const("aggregation_keywords", SeqS)
GRPKEYS = z3.Const("group_keywords", SeqS)
OBJKEYS = z3.Const("object_keywords", SeqS)
endkw = z3.Function("end_keyword_of", S, S)
DOC = z3.Const("self_doc_on_entry", S)
GCONST = {}


def gconst(name):
    if name not in GCONST:
        GCONST[name] = z3.Const("grammar_" + name, S)
    return GCONST[name]


def isBegin(t):
    return memcf(AGGKEYS, casefold(t))


def sub(s, lo, hi):
    return z3.SubSeq(s, lo, hi - lo)


STREAM_KEYS = ("cur", "pbf", "pbt", "live", "started", "ended", "nexts")


class SSnap:
    def __init__(self, th):
        self.th = th

    def __getattr__(self, k):
        if k in STREAM_KEYS:
            return self.th[k]
        raise AttributeError(k)

    def __getitem__(self, k):
        return self.th[k]

    def get(self, k, d=None):
        return self.th.get(k, d)

    @property
    def rem(self):
        return N - self.th["cur"] + z3.If(self.th["pbf"], 1, 0)


def rem_of(th):
    return N - th["cur"] + z3.If(th["pbf"], 1, 0)


class TokTheory(ObjTheory):
    name = "T_tok"
    feasible_axioms = False

    def axioms(self):
        a, b = z3.Consts("ka kb", SeqS)
        x, y = z3.Consts("kx ky", S)
        ax = [
            z3.ForAll([x], memcf(z3.Empty(SeqS), x) == z3.BoolVal(False), patterns=[memcf(z3.Empty(SeqS), x)]),
            z3.ForAll([x, y], memcf(z3.Unit(y), x) == (casefold(y) == x), patterns=[memcf(z3.Unit(y), x)]),
            z3.ForAll([a, b, x], memcf(z3.Concat(a, b), x) == z3.Or(memcf(a, x), memcf(b, x)),
                      patterns=[memcf(z3.Concat(a, b), x)]),
        ]
        return ax

    def view(self, snap, recv):
        return SSnap(snap)

    # ---- state -------------------------------------------------------------------
    def init_state(self, ex, fv):
        th = ex.st.th
        th["cur"] = fresh("cur", I)
        th["pbf"] = fresh("pbf", B)
        th["pbt"] = fresh("pbt", S)
        th["live"] = fresh("live", B)
        th["started"] = fresh("started", B)
        th["ended"] = z3.BoolVal(False)
        th["nexts"] = z3.IntVal(0)
        ex.st.assume(N >= 0)
        ex.st.assume(LEXFAIL >= 0)
        ex.st.assume(z3.And(th["cur"] >= 0, th["cur"] <= N))
        # a finished generator holds nothing; an unstarted one has produced nothing and holds nothing
        ex.st.assume(z3.Implies(z3.Not(th["live"]), z3.Not(th["pbf"])))
        ex.st.assume(z3.Implies(z3.Not(th["started"]), z3.And(th["cur"] == 0, z3.Not(th["pbf"]))))
        ex.st.assume(z3.Implies(th["live"], th["cur"] <= LEXFAIL))
        for v in ex.args.values():
            if isinstance(v, ObjV) and v.role == "cont":
                self.cont_len(ex, v)

    def wf_stream(self, th):
        return z3.And(th["cur"] >= 0, th["cur"] <= N, z3.Implies(z3.Not(th["live"]), z3.Not(th["pbf"])),
                      z3.Implies(z3.Not(th["started"]), z3.And(th["cur"] == 0, z3.Not(th["pbf"]))),
                      z3.Implies(th["live"], th["cur"] <= LEXFAIL))

    def havoc_stream(self, ex):
        th = ex.st.th
        for k, srt in (("cur", I), ("pbf", B), ("pbt", S), ("live", B), ("started", B), ("nexts", I)):
            th[k] = fresh(k, srt)
        ex.st.assume(self.wf_stream(th))

    def havoc_state(self, ex, body, modifies):
        if modifies == []:
            return
        touches = any(isinstance(c, ast.Name) and c.id == "tokens" for n in body for c in ast.walk(n))
        if touches or modifies:
            self.havoc_stream(ex)
        # containers mutated in the body
        for key in list(ex.st.th):
            if key.endswith(".len"):
                ex.st.th[key] = fresh("len", I)
                ex.st.assume(ex.st.th[key] >= 0)
        for key in list(ex.st.th):
            if key == "self.errors_n":
                ex.st.th[key] = fresh("errors_n", I)

    def havoc_value(self, ex, old, nm):
        return old

    def havoc_for_call(self, ex, c, recv=None):
        if c.pure:
            return
        self.havoc_stream(ex)
        # only a container handed to the callee can be changed by it
        for v in (ex.st.ghost.get("call_args") or {}).values():
            if isinstance(v, ObjV) and v.role == "cont":
                key = f"{v.info['oid']}.len"
                ex.st.th[key] = fresh("len", I)
                ex.st.assume(ex.st.th[key] >= 0)

    def fresh_of_kind(self, kind, nm):
        if kind == "tok":
            return Z("tok", fresh(nm, S))
        if kind == "val":
            return ObjV("val")
        if kind == "tokens":
            return ObjV("tokens")
        if kind == "cont":
            return self.new_cont(None, nm)
        if kind == "strnone":
            return Conc(None)
        return super().fresh_of_kind(kind, nm)

    _cn = 0

    def new_cont(self, ex, nm="cont"):
        TokTheory._cn += 1
        o = ObjV("cont", info={"oid": f"{nm}{TokTheory._cn}"})
        return o

    def cont_len(self, ex, o):
        key = f"{o.info['oid']}.len"
        if key not in ex.st.th:
            ex.st.th[key] = fresh("len", I)
            ex.st.assume(ex.st.th[key] >= 0)
        return ex.st.th[key]

    def fresh_result(self, ex, res, label):
        if res == "val":
            return ObjV("val")
        if res == "cont":
            o = self.new_cont(ex, "agg")
            ex.st.th[f"{o.info['oid']}.len"] = fresh("len", I)
            ex.st.assume(ex.st.th[f"{o.info['oid']}.len"] >= 0)
            return o
        if res == "tok":
            return Z("tok", fresh("tokres", S))
        if res == "list":
            return ObjV("list")
        return super().fresh_result(ex, res, label)

    def result_conforms(self, ex, res_kind, v):
        if callable(res_kind):
            want = res_kind(ex)
            if isinstance(want, Conc):
                return isinstance(v, Conc) and v.v is want.v
            if isinstance(want, TupV):
                if not (isinstance(v, TupV) and len(v.items) == len(want.items)):
                    return False
                for w, x in zip(want.items, v.items):
                    if isinstance(w, Conc) and not (isinstance(x, Conc) and x.v is w.v):
                        return False
            return True
        if res_kind == "val":
            return not isinstance(v, (BoundM, FuncV)) and not (isinstance(v, Conc) and v.v is None and False)
        if res_kind == "list":
            return isinstance(v, ObjV) and v.role == "list"
        if res_kind == "cont":
            return isinstance(v, ObjV) and v.role == "cont"
        if res_kind == "pair":
            return isinstance(v, TupV) and len(v.items) == 2
        if res_kind == "tok":
            return sval(v) is not None
        if res_kind == "hookres":
            return isinstance(v, TupV) and len(v.items) == 2 and isinstance(v.items[1], Conc)
        return super().result_conforms(ex, res_kind, v)

    # ---- names / fields --------------------------------------------------------------
    def global_name(self, ex, name):
        if name in ("next", "Token", "frozenset", "set", "list", "sorted", "re", "linecount", "EmptyValueAtLine",
                    "str", "len", "isinstance", "super", "int", "float", "abc", "tuple", "any", "all"):
            return FuncV(name)
        return super().global_name(ex, name)

    def initial_field(self, ex, recv, attr):
        if recv.role in ("self",):
            if attr in ("grammar", "decoder"):
                return ObjV(attr, info={"oid": attr})
            if attr in ("modcls", "grpcls", "objcls", "lexer"):
                return FuncV("field:" + attr)
            if attr == "doc":
                return Z("str", DOC)
            if attr == "errors":
                ex.st.th["self.errors_n"] = fresh("errors_n", I)
                return ObjV("errors")
        if recv.role == "grammar":
            if attr in ("set_delimiters", "sequence_delimiters", "units_delimiters"):
                return TupV([Z("str", gconst(attr + "_open")), Z("str", gconst(attr + "_close"))])
            if attr == "aggregation_keywords":
                return ObjV("kwdict", info={"keys": AGGKEYS})
            if attr == "group_keywords":
                return ObjV("kwdict", info={"keys": GRPKEYS})
            if attr == "object_keywords":
                return ObjV("kwdict", info={"keys": OBJKEYS})
            if attr in ("reserved_keywords", "delimiters", "whitespace", "end_statements"):
                return ObjV("opaque-coll")
        if recv.role == "decoder" and attr == "real_cls":
            return FuncV("field:real_cls")
        return None

    def getattr(self, ex, recv, attr):
        if isinstance(recv, ObjV) and recv.role in ("grammar", "decoder"):
            v = self.field(ex, recv, attr) if self.initial_field(ex, recv, attr) is not None else None
            if v is not None:
                return v
            return BoundM(recv, attr)
        if isinstance(recv, ObjV) and recv.role in ("tokens", "cont", "kwdict", "errors", "list", "val", "opaque-coll"):
            return BoundM(recv, attr)
        if isinstance(recv, Z) and recv.kind == "tok" and attr == "pos":
            return Z("int", fresh("tokpos", I))
        if isinstance(recv, ExcV) and attr == "token":
            if recv.payload is not None and isinstance(recv.payload, list):
                return recv.payload[1] if len(recv.payload) > 1 else Conc(None)
            # raised by a callee: unknown, but the same on every read
            if ex.path.choose(2, "err.token") == 0:
                recv.payload = [None, Conc(None)]
            else:
                recv.payload = [None, Z("tok", fresh("errtok", S))]
            return recv.payload[1]
        return super().getattr(ex, recv, attr)

    def setattr(self, ex, recv, attr, v):
        if isinstance(recv, ObjV) and recv.role == "self" and attr == "errors":
            ex.st.th["self.errors_n"] = z3.IntVal(0)
            ex.st.th["self.errors"] = ObjV("errors")
            ex.st.ghost.setdefault("stores", []).append(("self", attr))
            return
        return super().setattr(ex, recv, attr, v)

    # ---- operations --------------------------------------------------------------
    def truth(self, ex, v):
        if isinstance(v, ObjV) and v.role in ("val", "list", "cont"):
            if v.role == "cont":
                return self.cont_len(ex, v) != 0
            return fresh("truthy", B)
        return super().truth(ex, v)

    def is_none(self, ex, a):
        if isinstance(a, ObjV) and a.role == "val":
            return fresh("val_is_none", B)
        return super().is_none(ex, a)

    def eq(self, ex, a, b):
        if isinstance(a, OpaqueStr) or isinstance(b, OpaqueStr):
            return fresh("opaque_eq", B)
        return super().eq(ex, a, b)

    def contains(self, ex, container, item):
        if isinstance(container, (OpaqueStr,)) or (isinstance(container, ObjV) and container.role in ("opaque-coll", "val", "list")):
            return fresh("opaque_in", B)      # (a local list: its content is not modelled)
        if isinstance(container, Z) and container.kind == "str":
            return fresh("substr_in", B)
        return super().contains(ex, container, item)

    def binop(self, ex, op, a, b):
        if isinstance(a, ObjV) or isinstance(b, ObjV):
            return ObjV("opaque-coll")
        return super().binop(ex, op, a, b)

    def getitem(self, ex, recv, idx):
        if isinstance(recv, ObjV) and recv.role == "cont":
            i = ex.as_int(idx)
            n = self.cont_len(ex, recv)
            if ex.branch(z3.And(i >= -n, i < n), "cont-index"):
                return TupV([Z("tok", fresh("lastk", S)), ObjV("val")])
            raise PyRaise(ExcV("IndexError"))
        if isinstance(recv, ObjV) and recv.role == "kwdict":
            k = sval(idx)
            if k is None:
                raise Untranslatable("keyword dict lookup")
            return Z("str", endkw(k))
        return super().getitem(ex, recv, idx)

    def setitem(self, ex, recv, idx, v):
        if isinstance(recv, ObjV) and recv.role == "cont":
            # container[key] = value: C10's contract - appended when the key is new, otherwise the first
            # occurrence is replaced and every later one dropped; only the length is tracked here
            n = fresh("len_after_setitem", I)
            ex.st.assume(z3.And(n >= 1, n <= self.cont_len(ex, recv) + 1))
            ex.st.th[f"{recv.info['oid']}.len"] = n
            return
        return super().setitem(ex, recv, idx, v)

    def unpack(self, ex, v, n):
        if isinstance(v, ObjV) and v.role in ("val",) and n == 2:
            return [Z("tok", fresh("u0", S)), ObjV("val")]
        return super().unpack(ex, v, n)

    def empty_list(self, ex):
        return ObjV("list")

    def list_display(self, ex, items):
        return ObjV("list")

    def comprehension(self, ex, node):
        return ObjV("opaque-coll")

    def isinstance_(self, ex, v, names):
        return Z("bool", fresh("isinstance", B))

    def b_isinstance(self, ex, args, kwargs):
        return Z("bool", fresh("isinstance", B))

    # ---- the generator protocol ----------------------------------------------------------
    def do_next(self, ex):
        th = ex.st.th
        ex.oblige(f"{ex.fv.qual}:next@+{ex.lineno_rel()}:not-after-END", z3.Not(th["ended"]))
        th["nexts"] = th["nexts"] + 1
        if ex.branch(th["pbf"], "next:pushback"):
            t = th["pbt"]
            th["pbf"] = z3.BoolVal(False)
            return Z("tok", t)
        if not ex.branch(th["live"], "next:live"):
            raise PyRaise(ExcV("StopIteration"))
        if ex.branch(th["cur"] == LEXFAIL, "next:lexfail"):
            th["live"] = z3.BoolVal(False)
            raise PyRaise(ExcV("LexerError"))
        if ex.branch(th["cur"] >= N, "next:exhausted"):
            th["live"] = z3.BoolVal(False)
            raise PyRaise(ExcV("StopIteration"))
        t = tokat(th["cur"])
        th["cur"] = th["cur"] + 1
        th["started"] = z3.BoolVal(True)
        return Z("tok", t)

    def b_next(self, ex, args, kwargs):
        (g,) = args
        if not (isinstance(g, ObjV) and g.role == "tokens"):
            raise Untranslatable("next() of a non-token-stream")
        return self.do_next(ex)

    def call_method(self, ex, recv, name, args, kwargs):
        th = ex.st.th
        if isinstance(recv, ObjV) and recv.role == "tokens":
            site = f"{ex.fv.qual}:{name}@+{ex.lineno_rel()}"
            if name == "send":
                t = sval(args[0])
                if t is None:
                    raise Untranslatable("send of a non-token")
                ex.oblige(f"{site}:protocol:generator-live", th["live"])
                ex.oblige(f"{site}:protocol:generator-started", th["started"])
                ex.oblige(f"{site}:protocol:push-back-empty", z3.Not(th["pbf"]))
                ex.st.assume(z3.And(th["live"], th["started"], z3.Not(th["pbf"])))
                th["pbf"] = z3.BoolVal(True)
                th["pbt"] = t
                return Conc(None)
            if name == "throw":
                ex.oblige(f"{site}:protocol:generator-suspended-at-a-yield", z3.And(th["live"], th["started"]))
                ex.st.assume(z3.And(th["live"], th["started"]))
                th["live"] = z3.BoolVal(False)
                th["pbf"] = z3.BoolVal(False)
                raise PyRaise(ExcV("LexerError"))
            raise Untranslatable(f"tokens.{name}")
        if isinstance(recv, Z) and recv.kind in ("tok", "str"):
            t = recv.t
            if name == "is_WSC":
                return Z("bool", isWSC(t))
            if name == "is_parameter_name":
                return Z("bool", isParam(t))
            if name == "is_begin_aggregation":
                return Z("bool", isBegin(t))
            if name == "is_end_statement":
                return Z("bool", isEndStmt(t))
            if name == "is_delimiter":
                return Z("bool", isDelim(t))
            if name == "strip":
                return OPAQUE_STR
        if isinstance(recv, ObjV) and recv.role == "cont":
            key = f"{recv.info['oid']}.len"
            n = self.cont_len(ex, recv)
            if name == "append":
                th[key] = n + 1
                return Conc(None)
            if name == "pop" and not args:
                if ex.branch(n > 0, "cont.pop"):
                    th[key] = n - 1
                    return TupV([Z("tok", fresh("popk", S)), ObjV("val")])
                raise PyRaise(ExcV("KeyError"))
        if isinstance(recv, ObjV) and recv.role == "kwdict" and name == "keys":
            return Z("seqS", recv.info["keys"])
        if isinstance(recv, ObjV) and recv.role == "errors" and name == "append":
            th["self.errors_n"] = th.get("self.errors_n", fresh("errors_n", I)) + 1
            th["self.errors_last"] = args[0]
            return Conc(None)
        if isinstance(recv, ObjV) and recv.role == "list" and name == "append":
            return Conc(None)
        if isinstance(recv, ObjV) and recv.role == "decoder":
            if name == "decode_simple_value":
                if ex.path.choose(2, "decode_simple_value") == 0:
                    return ObjV("val")
                raise PyRaise(ExcV("ValueError"))
            if name == "decode_quantity":
                return ObjV("val")
        if isinstance(recv, FuncV) and recv.name == "re" and name == "sub":
            return Z("str", fresh("resub", S))
        return super().call_method(ex, recv, name, args, kwargs)

    def call(self, ex, fv, args, kwargs, node):
        if isinstance(fv, FuncV):
            if fv.name in ("field:modcls", "field:grpcls", "field:objcls"):
                o = self.new_cont(ex, "cont")
                ex.st.th[f"{o.info['oid']}.len"] = z3.IntVal(0)
                o.info["alloc"] = fv.name
                return o
            if fv.name == "field:lexer":
                # a new generator for the text: nothing produced, nothing pushed back
                th = ex.st.th
                th["cur"] = z3.IntVal(0)
                th["pbf"] = z3.BoolVal(False)
                th["live"] = z3.BoolVal(True)
                th["started"] = z3.BoolVal(False)
                th["ended"] = z3.BoolVal(False)
                return ObjV("tokens")
            if fv.name == "list" and not args:
                return ObjV("list")
            if fv.name in ("frozenset", "set"):
                if ex.path.choose(2, fv.name) == 0:
                    return ObjV("val")
                raise PyRaise(ExcV("TypeError"))
            if fv.name == "Token":
                return Z("tok", fresh("mktok", S))
            if fv.name == "sorted":
                return ObjV("val")
            if fv.name == "EmptyValueAtLine":
                v = ObjV("val", info={"lineno": args[0]})
                return v
            if fv.name == "re.sub":
                return Z("str", fresh("resub", S))
        return super().call(ex, fv, args, kwargs, node)

    def len_(self, ex, v):
        if isinstance(v, ObjV) and v.role == "cont":
            return Z("int", self.cont_len(ex, v))
        return super().len_(ex, v)

    # ---- loops -----------------------------------------------------------------------
    def for_loop(self, ex, node, itv, spec, ordn):
        lname = f"loop#{ordn}"
        q = ex.fv.qual
        if isinstance(itv, ObjV) and itv.role == "tokens":
            for nm, f in spec.inv(ex.env, ex.st, None):
                ex.oblige(f"{q}:{lname}:inv-established:{nm}", f)
            ex.havoc_loop(node, spec)
            for nm, f in spec.inv(ex.env, ex.st, None):
                ex.st.assume(f)
            rem0 = rem_of(ex.st.th)
            try:
                t = self.do_next(ex)
            except PyRaise as pr:
                if pr.exc.cls == "StopIteration":
                    ex.stmts(node.orelse)
                    return
                raise
            ex.assign(node.target, t)
            try:
                ex.stmts(node.body)
            except _Break:
                return
            except _Continue:
                pass
            for nm, f in spec.inv(ex.env, ex.st, None):
                ex.oblige(f"{q}:{lname}:inv-preserved:{nm}", f)
            ex.oblige(f"{q}:{lname}:variant-decreases", z3.And(rem_of(ex.st.th) < rem0, rem0 >= 0))
            raise PathEnd()
        if isinstance(itv, Z) and itv.kind == "seqS":
            s = itv.t
            for nm, f in spec.inv(ex.env, ex.st, z3.IntVal(0)):
                ex.oblige(f"{q}:{lname}:inv-established:{nm}", f)
            ex.havoc_loop(node, spec)
            i = fresh("i", I)
            ex.st.assume(z3.And(i >= 0, i <= z3.Length(s)))
            for nm, f in spec.inv(ex.env, ex.st, i):
                ex.st.assume(f)
            if ex.branch(i < z3.Length(s), f"for@{node.lineno}"):
                ex.st.assume(sub(s, 0, i + 1) == z3.Concat(sub(s, 0, i), z3.Unit(s[i])))
                ex.assign(node.target, Z("str", s[i]))
                try:
                    ex.stmts(node.body)
                except _Break:
                    return
                except _Continue:
                    pass
                for nm, f in spec.inv(ex.env, ex.st, i + 1):
                    ex.oblige(f"{q}:{lname}:inv-preserved:{nm}", f)
                raise PathEnd()
            ex.st.assume(sub(s, 0, i) == s)
            ex.stmts(node.orelse)
            return
        if isinstance(itv, ObjV) and itv.role == "opaque-coll":
            # a collection known only as 'some finite collection of strings' (grammar tables, their comprehensions): cut after
            # one arbitrary iteration from a havocked loop head; exceptional exits and breaks of the body are followed
            for nm, f in spec.inv(ex.env, ex.st, None):
                ex.oblige(f"{q}:{lname}:inv-established:{nm}", f)
            ex.havoc_loop(node, spec)
            for nm, f in spec.inv(ex.env, ex.st, None):
                ex.st.assume(f)
            if ex.path.choose(2, f"for@{node.lineno}") == 0:
                ex.assign(node.target, self.fresh_of_kind("str", "item"))
                try:
                    ex.stmts(node.body)
                except _Break:
                    return
                except _Continue:
                    pass
                for nm, f in spec.inv(ex.env, ex.st, None):
                    ex.oblige(f"{q}:{lname}:inv-preserved:{nm}", f)
                raise PathEnd()
            ex.stmts(node.orelse)
            return
        raise Untranslatable(f"for loop over {itv!r}")
