"""Iteration over tables of unknown size (shared by T_lex and T_enc): automatic search-loop rule, quantified any()/all(),
explicit (contract-given) search loops for nested bodies."""
import ast

import z3

from .core import (Conc, Z, TupV, ExcV, ObjV, BoundM, FuncV, PyRaise, Untranslatable, PathEnd, fresh, _Break, _Continue)
from .objtheory import S, I, B, strlen

set_has = z3.Function("strset_has", I, S, B)
pairs_has = z3.Function("pairs_has", I, S, S, B)
char_of = z3.Function("is_a_character_of", S, S, B)                  # (character, text)
elem_of = z3.Function("is_an_element_of", I, I, B)                   # (element value id, collection value id)
rec_has = z3.Function("quantity_table_has", I, B)                    # a record (cls, value_prop, units_prop) of self.quantities
zip_has = z3.Function("zip_has_tuple", I, I, B)                     # zip(it1, it2) yields the pair (a, b)
flat_has = z3.Function("is_a_part_of_some_pair", I, S, B)            # chain.from_iterable(PAIRS) yields x


class BindCounter:
    n = 0


class TableMixin:
    def sv(self, v):
        from .objtheory import sval
        return sval(v)

    # ---- tables, quantified tests, search loops ------------------------------------------------------
    def table_of(self, ex, itv):
        """the table a `for` / comprehension iterates over, or None"""
        if isinstance(itv, ObjV):
            r = itv.role
            if r in ("strset", "pairs"):
                return itv
            if r == "flatpairs":
                return ObjV("flat", info={"id": itv.info["id"]})
            if r == "pyval":
                return ObjV("elements", info={"id": itv.info["id"]})
            if r == "records":
                return ObjV("recordtable", info={"id": z3.IntVal(0)})
            if r == "ziptable":
                return ObjV("pairs-of-values", info={"id": z3.IntVal(0)})
            if r == "enum-chars":
                return ObjV("chars", info={"text": itv.info["text"], "enum": True})
        t = self.sv(itv)
        if t is not None:
            return ObjV("chars", info={"text": t})
        return None

    def bind_member(self, ex, table, target, bound):
        """binds the loop / comprehension target to an arbitrary member -> (z3 variables, membership formula, handle for specs)"""
        BindCounter.n += 1
        tag = f"bound{BindCounter.n}_" if bound else ""
        mk = (lambda nm, sort: z3.Const(tag + nm, sort)) if bound else (lambda nm, sort: fresh(nm, sort))
        r = table.role
        if r == "pairs-of-values":
            a, b = mk("tuple_a", I), mk("tuple_b", I)
            ex.assign(target, TupV([ObjV("pyval", info={"id": a}), ObjV("pyval", info={"id": b})]))
            return [a, b], zip_has(a, b), (a, b)
        if r == "pairs":
            a, b = mk("member_open", S), mk("member_close", S)
            ex.assign(target, TupV([Z("str", a), Z("str", b)]))
            return [a, b], pairs_has(table.info["id"], a, b), (a, b)      # (pairs_has => pairs_len > 0: axiom of T_lex)
        if r in ("elements", "recordtable"):
            x = mk("element_id", I)
            ex.assign(target, ObjV("record" if r == "recordtable" else "pyval", info={"id": x}))
            return [x], (rec_has(x) if r == "recordtable" else elem_of(x, table.info["id"])), x
        x = mk("member", S)
        if r == "chars":
            m = char_of(x, table.info["text"])
            if table.info.get("enum"):
                ex.assign(target, TupV([Z("int", mk("index", I)), Z("str", x)]))
            else:
                ex.assign(target, Z("str", x))
            return [x], m, x
        ex.assign(target, Z("str", x))
        return [x], (flat_has(table.info["id"], x) if r == "flat" else set_has(table.info["id"], x)), x

    def pure_bool(self, ex, node):
        """truth value of an expression as ONE formula (no path split): and / or / not are connectives"""
        if isinstance(node, ast.BoolOp):
            parts = [self.pure_bool(ex, v) for v in node.values]
            parts = [z3.BoolVal(p) if isinstance(p, bool) else p for p in parts]
            return z3.And(*parts) if isinstance(node.op, ast.And) else z3.Or(*parts)
        if isinstance(node, ast.UnaryOp) and isinstance(node.op, ast.Not):
            p = self.pure_bool(ex, node.operand)
            return (not p) if isinstance(p, bool) else z3.Not(p)
        old = getattr(ex, "no_branch", False)
        ex.no_branch = True
        try:
            return ex.truth(ex.expr(node))
        finally:
            ex.no_branch = old

    def search_loop(self, ex, node, table, spec, ordn):
        """`for x in TABLE: if P(x): return/raise ...` (also with a for-else).  The body is executed for an arbitrary member
        (paths that leave the function continue as usual, a path that falls through ends); after the loop every member
        fell through: `forall x in TABLE. not P(x)` is assumed, P being the test of the body's single `if` evaluated on a
        bound variable.  No per-loop specification is needed (and none is keyed by the loop's position in the function)."""
        if assigned_in(node.body) - {t.id for t in ast.walk(node.target) if isinstance(t, ast.Name)}:
            raise Untranslatable(f"search loop at line {node.lineno} assigns variables")
        body = list(node.body)
        saved = dict(ex.env)
        if ex.path.choose(2, f"for@{node.lineno}") == 0:
            vs, mem, _ = self.bind_member(ex, table, node.target, bound=False)
            ex.st.assume(mem)
            try:
                ex.stmts(node.body)
            except _Break:
                raise Untranslatable("break in search loop")
            except _Continue:
                pass
            raise PathEnd()
        vs, mem, _ = self.bind_member(ex, table, node.target, bound=True)
        try:
            f = self.leave_cond(ex, body)
        finally:
            ex.env.clear()
            ex.env.update(saved)
        f = z3.BoolVal(f) if isinstance(f, bool) else f
        ex.st.assume(z3.ForAll(vs, z3.Implies(mem, z3.Not(f)), patterns=[mem] if not z3.is_and(mem) else [mem.arg(0)]))
        ex.stmts(node.orelse)

    def leave_cond(self, ex, stmts):
        """the condition under which executing the (side-effect free) statements leaves the function by return / raise,
        as one formula over the current environment; anything but if / return / raise / pass is refused"""
        def b(v):
            return z3.BoolVal(v) if isinstance(v, bool) else v
        if not stmts:
            return False
        st, rest = stmts[0], stmts[1:]
        if isinstance(st, (ast.Return, ast.Raise)):
            return True
        if isinstance(st, ast.Continue):
            return False                         # this member is done: nothing after the continue runs for it
        if isinstance(st, ast.Pass) or (isinstance(st, ast.Expr) and isinstance(st.value, ast.Constant)):
            return self.leave_cond(ex, rest)
        if isinstance(st, ast.If):
            t = b(self.pure_bool(ex, st.test))
            lb, lo = b(self.leave_cond(ex, st.body)), b(self.leave_cond(ex, st.orelse))
            here = z3.Or(z3.And(t, lb), z3.And(z3.Not(t), lo))
            return z3.simplify(z3.Or(here, z3.And(z3.Not(here), b(self.leave_cond(ex, rest)))))
        raise Untranslatable(f"loop body statement {type(st).__name__} at line {st.lineno} in a search loop over a table")

    def quantified(self, ex, gen, want_all):
        """any(E for x in TABLE) / all(E for x in TABLE) -> python bool of the path taken"""
        node, table = gen.info["node"], gen.info["table"]
        if node.generators[0].ifs:
            # any(E for x in T if C) == any(C and E for x in T);  all(E for x in T if C) == all(not C or E for x in T)
            conds = list(node.generators[0].ifs)
            g = node.generators[0]
            if want_all:
                elt = ast.BoolOp(op=ast.Or(), values=[ast.UnaryOp(op=ast.Not(), operand=ast.BoolOp(op=ast.And(), values=conds)
                                                                  if len(conds) > 1 else conds[0]), node.elt])
            else:
                elt = ast.BoolOp(op=ast.And(), values=conds + [node.elt])
            node = ast.GeneratorExp(elt=elt, generators=[ast.comprehension(target=g.target, iter=g.iter, ifs=[], is_async=0)])
            ast.copy_location(node, gen.info["node"])
            ast.fix_missing_locations(node)
        saved = dict(ex.env)
        target = node.generators[0].target
        items = gen.info.get("items")
        if items is not None:
            # explicit items first: their disjunction (any) / conjunction (all) as one formula
            fs = []
            try:
                for it in items:
                    ex.assign(target, it)
                    f = self.pure_bool(ex, node.elt)
                    fs.append(z3.BoolVal(f) if isinstance(f, bool) else f)
            finally:
                ex.env.clear()
                ex.env.update(saved)
            d = (z3.And(*fs) if want_all else z3.Or(*fs)) if fs else z3.BoolVal(want_all)
            decided = z3.Not(d) if want_all else d        # the explicit items already decide the result
            if table is None:
                return ex.branch(d, "all" if want_all else "any")
            if ex.branch(decided, "explicit-items-decide"):
                return not want_all
        c = ex.path.choose(2, "all" if want_all else "any")
        try:
            if c == 0:
                # the witness path: any -> some member satisfies E; all -> some member violates E
                vs, mem, _ = self.bind_member(ex, table, target, bound=False)
                f = self.pure_bool(ex, node.elt)
                f = z3.BoolVal(f) if isinstance(f, bool) else f
                ex.st.assume(z3.And(mem, z3.Not(f) if want_all else f))
                return not want_all
            vs, mem, _ = self.bind_member(ex, table, target, bound=True)
            f = self.pure_bool(ex, node.elt)
            f = z3.BoolVal(f) if isinstance(f, bool) else f
            ex.st.assume(z3.ForAll(vs, z3.Implies(mem, f if want_all else z3.Not(f)),
                                   patterns=[mem] if not z3.is_and(mem) else [mem.arg(0)]))
            return want_all
        finally:
            ex.env.clear()
            ex.env.update(saved)


    def for_loop(self, ex, node, itv, spec, ordn):
        if isinstance(itv, ObjV) and itv.role == "mixed-iter":
            # the explicit items first (unrolled), then the table
            for x in itv.info["items"]:
                ex.assign(node.target, x)
                try:
                    ex.stmts(node.body)
                except _Break:
                    return
                except _Continue:
                    continue
            return self.search_loop(ex, node, itv.info["rest"], spec, ordn)
        table = self.table_of(ex, itv)
        if table is not None and getattr(spec, "fall_through", None) is None:
            return self.search_loop(ex, node, table, spec, ordn)
        if table is not None:
            return self.explicit_search_loop(ex, node, table, spec, ordn)
        return super().for_loop(ex, node, itv, spec, ordn)

    def explicit_search_loop(self, ex, node, table, spec, ordn):
        """a loop over a table whose body is not a single `if P(x): leave` (nested loops): the contract gives the
        fall-through fact J(x) and the exit fact E; J is an obligation of the arbitrary iteration, `forall x. J(x) => E` an
        obligation of its own, E is assumed after the loop"""
        q = ex.fv.qual
        lname = f"loop#{ordn}"
        J, E = spec.fall_through, spec.exit
        saved = dict(ex.env)
        if ex.path.choose(2, f"for@{node.lineno}") == 0:
            vs, mem, h = self.bind_member(ex, table, node.target, bound=False)
            ex.st.assume(mem)
            try:
                ex.stmts(node.body)
            except _Break:
                raise Untranslatable("break in search loop")
            except _Continue:
                pass
            for nm, f in J(ex.env, ex.st, h):
                ex.oblige(f"{q}:{lname}:falls-through-only-when:{nm}", f)
            raise PathEnd()
        vs, mem, h = self.bind_member(ex, table, node.target, bound=True)
        closure = z3.ForAll(vs, z3.Implies(mem, z3.And(*[f for _, f in J(ex.env, ex.st, h)])))
        ex.env.clear()
        ex.env.update(saved)
        for nm, f in E(ex.env, ex.st):
            ex.oblige(f"{q}:{lname}:exit-fact-is-the-forall-closure:{nm}", z3.Implies(closure, f))
            ex.st.assume(f)
        ex.stmts(node.orelse)

    def b_any(self, ex, args, kwargs):
        (v,) = args
        if isinstance(v, ObjV) and v.role == "genexp":
            return Conc(self.quantified(ex, v, want_all=False))
        raise Untranslatable("any(...)")

    def b_all(self, ex, args, kwargs):
        (v,) = args
        if isinstance(v, ObjV) and v.role == "genexp":
            return Conc(self.quantified(ex, v, want_all=True))
        raise Untranslatable("all(...)")

    def comprehension(self, ex, node):
        # (E for x in TABLE): a value that any() / all() consume as a quantifier over the table's members
        if isinstance(node, ast.GeneratorExp) and len(node.generators) == 1:
            itv = ex.expr(node.generators[0].iter)
            if isinstance(itv, ObjV) and itv.role == "mixed-iter":
                return ObjV("genexp", info={"node": node, "table": self.table_of(ex, itv.info["rest"]), "items": itv.info["items"]})
            if isinstance(itv, TupV):
                return ObjV("genexp", info={"node": node, "table": None, "items": itv.items})
            table = self.table_of(ex, itv)
            if table is not None:
                return ObjV("genexp", info={"node": node, "table": table})
        raise Untranslatable("comprehension")



def assigned_in(body):
    out = set()
    for n in body:
        for c in ast.walk(n):
            if isinstance(c, (ast.Assign, ast.AugAssign, ast.AnnAssign)):
                for t in (c.targets if isinstance(c, ast.Assign) else [c.target]):
                    for nn in ast.walk(t):
                        if isinstance(nn, ast.Name):
                            out.add(nn.id)
    return out
