"""Run-time evaluation of the T_enc contracts on the real encoder methods (see lexnative.py):
the real method is called, and the contract's when/post formulas are evaluated with every
uninterpreted symbol interpreted by the Python operation it stands for.  Bounded."""
import datetime
import decimal

import z3

from .core import Conc, Z, TupV, ObjV
from . import objtheory as O
from . import lextheory as T
from . import enctheory as E
from .lexnative import Interp, Binder, NONE


class EncInterp(Interp):
    def __init__(self, enc, env, values):
        super().__init__(enc.grammar, enc.decoder, {}, env, {})
        self.enc = enc
        self.values = values        # value id -> python object

    def const(self, name):
        if name.startswith("grammar_"):
            k = name[len("grammar_"):]
            if k == "quote1":
                return self.g.quotes[0]
            if k == "quote2":
                return self.g.quotes[1]
            return getattr(self.g, k)
        if name == "self_width":
            return self.enc.width
        if name == "self_symbol_single_quote":
            return bool(getattr(self.enc, "symbol_single_quote", False))
        if name.startswith("result_of_"):
            return self.env[name]
        return super().const(name)

    def app(self, name, a):
        from pvl.token import Token
        if name == "any_char_of_text_in_table":
            return any(c in self.table(a[0]) for c in a[1])
        if name == "casefold_equal_to_a_member":
            return any(x.casefold() == a[1] for x in self.table(a[0]))
        if name == "some_member_is_substring":
            return any(x in a[1] for x in self.table(a[0]))
        if name == "str_casefold":
            return a[0].casefold()
        if name == "Token_predicate":
            pname = {v: k for k, v in E.PRED.items()}[a[0]]
            if a[1] != 1:
                raise KeyError("unconfigured token")
            return bool(getattr(Token(a[2], grammar=self.enc.grammar, decoder=self.enc.decoder), pname)())
        if name == "decoder_is_identifier":
            return bool(self.enc.decoder.is_identifier(a[0]))
        if name == "str_isprintable":
            return a[0].isprintable()
        if name == "str_of_value":
            return str(self.values[a[0]])
        if name == "isinstance_of":
            tname = {v: k for k, v in E.TYPES.items()}[a[1]]
            v = self.values[a[0]]
            if tname == "NoneType":
                return v is None
            if tname == "self.numeric_types":
                return isinstance(v, self.enc.numeric_types)
            ty = {"set": set, "frozenset": frozenset, "list": list, "bool": bool, "str": str,
                  "datetime.datetime": datetime.datetime, "datetime.date": datetime.date, "datetime.time": datetime.time}[tname]
            return isinstance(v, ty)
        return super().app(name, a)

    def ev(self, e):
        if z3.is_rational_value(e):
            return e.numerator_as_long() / e.denominator_as_long()
        if z3.is_app(e):
            k = e.decl().kind()
            if k == z3.Z3_OP_TO_REAL:
                return self.ev(e.children()[0])
            if k == z3.Z3_OP_DIV:
                a, b = [self.ev(c) for c in e.children()]
                return a / b
        return super().ev(e)


STRINGS = ["", "a", "abc", "NULL", "null", "True", "end", "End_Group", "BEGIN_OBJECT", "a b", "a\tb", "a\nb", "1", "1.5", "-3",
           "2#101#", "16#FF#", "2001-01-01", "12:00", "12:00:60", "it's", 'say "hi"', "both ' and \"", "x=y", "a,b", "(a)", "/* c */",
           "a-b", "a_b", "A1", "_a", "a_", "x" * 45, "w " * 30, "café", "inf", "nan", "1_0", "+", "-", "#", "a#b", "<m>", "a:b", "NS:NAME",
           "2001-001T12:00:00.5Z", "12:00+01", "\x07bell", "tab\there", "N/A", "'", '"']
VALUES = [None, True, False, 0, 1, -7, 2.5, float("inf"), decimal.Decimal("1.5"), "abc", "NULL", "", [1, 2], [], {1, 2}, frozenset({3}),
          datetime.date(2001, 1, 1), datetime.time(12, 0), datetime.datetime(2001, 1, 1, 12, 0), datetime.time(12, 0, tzinfo=datetime.timezone.utc),
          b"bytes", 3 + 4j, object(), (1, 2), {"a": 1}]


def encoders():
    import pvl.encoder as M
    out = []
    for cls in (M.PVLEncoder, M.ODLEncoder, M.PDSLabelEncoder, M.ISISEncoder):
        out.append((cls.__name__, cls()))
        if cls in (M.ODLEncoder, M.PDSLabelEncoder):
            out.append((cls.__name__ + "(width=20)", cls(width=20)))
    out.append(("PDSLabelEncoder(symbol_single_quote=False)", M.PDSLabelEncoder(symbol_single_quote=False)))
    return out


def check_method(contract, enc, label, static_cls, mname, value):
    """-> None | (what, data).  static_cls: the class whose body is run (super-style call on enc)"""
    import pvl.encoder as M
    fn = getattr(getattr(M, static_cls), mname)
    b = Binder()
    values = {}
    pname = [a.arg for a in contract.fn.args.args if a.arg != "self"][0]
    kind = contract.params.get(pname)
    if kind == "str":
        if not isinstance(value, str):
            return None
        arg = b.string(pname, value)
    else:
        vid = len(values) + 1
        values[vid] = value
        nm = b.name("vid")
        b.env[nm] = vid
        arg = ObjV("pyval", info={"id": z3.Const(nm, z3.IntSort())})
    a = {pname: arg, "self": ObjV("self", cls=type(enc).__name__)}
    # opaque callee results: whatever the real callees return for this value
    for callee in ("encode_set", "encode_sequence", "encode_datetype"):
        try:
            b.env["result_of_" + callee] = getattr(enc, callee)(value)
        except Exception:
            b.env["result_of_" + callee] = NONE
    exc = None
    try:
        got = fn(enc, value)
    except Exception as e:   # noqa
        exc = e
    ip = EncInterp(enc, b.env, values)
    shown = f"{label}: {static_cls}.{mname}({value!r})"
    if exc is not None:
        kind_ = type(exc).__name__
        ex = contract.exit_for(kind_)
        if ex is None:
            return f"{shown} raised {kind_}, which the contract does not permit", {"raised": kind_}
        if ex.when is not None and not ip.ev(ex.when(None, a)):
            return f"{shown} raised {kind_} outside the condition the contract gives for it", {"raised": kind_}
        return None
    ex = contract.exit_for("return")
    if ex.when is not None and not ip.ev(ex.when(None, a)):
        return f"{shown} returned {got!r} where the contract requires an exception", {"returned": repr(got)}
    if ex.res in ("bool", "truthy"):
        r = b.boolean("res", bool(got))
    else:
        if not isinstance(got, str):
            return f"{shown} returned {got!r}: not a str", {"returned": repr(got)}
        r = b.string("res", got)
    ip = EncInterp(enc, b.env, values)
    for nm, f in ex.post(None, None, a, r):
        if not ip.ev(f):
            return f"{shown} returned {got!r}, violating the contract clause '{nm}'", {"returned": repr(got), "clause": nm}
    return None


class TokInterp(EncInterp):
    """interpretation for the Token contracts: the 'encoder' is a holder of the token's grammar and decoder"""

    def app(self, name, a):
        if name == "Token_predicate":
            pname = {v: k for k, v in E.PRED.items()}[a[0]]
            if pname.startswith("decode_"):
                try:
                    getattr(self.enc.decoder, pname)(a[2])
                    return True
                except ValueError:
                    return False
        if name == "some_pair_has_a_part_in_text":
            return any(x in a[1] or y in a[1] for x, y in self.table(a[0]))
        if name == "some_pair_delimits_text":
            return any(a[1].startswith(x) and (a[1].endswith(y) or (y == "\n" and "\n" not in a[1])) for x, y in self.table(a[0]))
        if name == "str_startswith":
            return a[0].startswith(a[1])
        if name == "str_endswith":
            return a[0].endswith(a[1])
        return super().app(name, a)

    def table(self, i):
        name = {v: k for k, v in T.TABLES.items()}[i]
        if name == "g.aggregation_keywords.keys":
            return list(self.g.aggregation_keywords.keys())
        return super().table(i)


class _Holder:
    def __init__(self, g, d):
        self.grammar, self.decoder, self.width = g, d, 80


def check_token(contract, g, d, text):
    from pvl.token import Token
    mname = contract.target.rsplit(".", 1)[1]
    b = Binder()
    nm = b.name("token_text")
    b.env[nm] = text
    a = {"self": ObjV("self", cls="Token", info={"oid": "self", "text": z3.Const(nm, O.S)})}
    tok = Token(text, grammar=g, decoder=d)
    try:
        got = getattr(tok, mname)()
    except Exception as e:     # noqa
        return f"Token({text!r}).{mname}() raised {type(e).__name__}: {e}", {"raised": type(e).__name__}
    r = b.boolean("res", bool(got))
    ip = TokInterp(_Holder(g, d), b.env, {})
    ex = contract.exit_for("return")
    for cl, f in ex.post(None, None, a, r):
        if not ip.ev(f):
            return f"Token({text!r}).{mname}() returned {got!r}, violating '{cl}'", {"returned": repr(got), "clause": cl}
    return None
