"""Extraction: the verified text is read from /repo's working tree on every run."""
import ast
import os
import sysconfig

from ..harness import REPO

_cache = {}


def module_path(mod):
    if mod.startswith("pvl"):
        rel = mod.replace(".", "/")
        p = os.path.join(REPO, rel + ".py")
        if not os.path.exists(p):
            p = os.path.join(REPO, rel, "__init__.py")
        return p
    if mod == "_collections_abc":
        # the interpreter that runs the repository's suite (and these checks)
        return os.path.join(sysconfig.get_paths()["stdlib"], "_collections_abc.py")
    raise KeyError(mod)


def module_ast(mod):
    p = module_path(mod)
    key = (p, os.path.getmtime(p))
    if key not in _cache:
        with open(p, encoding="utf-8") as fh:
            src = fh.read()
        _cache[key] = (ast.parse(src, filename=p), src)
    return _cache[key][0]


def module_src(mod):
    module_ast(mod)
    p = module_path(mod)
    return _cache[(p, os.path.getmtime(p))][1]


class ClassInfo:
    def __init__(self, mod, node):
        self.mod = mod
        self.node = node
        self.name = node.name
        self.bases = []
        for b in node.bases:
            if isinstance(b, ast.Name):
                self.bases.append(b.id)
            elif isinstance(b, ast.Attribute):
                self.bases.append(b.attr)
            else:
                self.bases.append(ast.dump(b))
        self.methods = {}
        self.aliases = {}      # name = <expr> at class level
        for s in node.body:
            if isinstance(s, ast.FunctionDef):
                self.methods[s.name] = s
            elif isinstance(s, ast.Assign) and len(s.targets) == 1 and isinstance(s.targets[0], ast.Name):
                self.aliases[s.targets[0].id] = s.value


def _is_constant_display(e):
    """a tuple / list / set / frozenset display whose leaves are literals or dotted names (enum members), or such a leaf"""
    if isinstance(e, ast.Constant):
        return True
    if isinstance(e, ast.Attribute):
        return isinstance(e.value, ast.Name)
    if isinstance(e, (ast.Tuple, ast.List, ast.Set)):
        return all(_is_constant_display(x) for x in e.elts)
    if isinstance(e, ast.Call) and isinstance(e.func, ast.Name) and e.func.id in ("frozenset", "tuple", "set") and len(e.args) == 1 \
            and not e.keywords:
        return _is_constant_display(e.args[0])
    return False


class Program:
    """Class table + functions of a set of modules."""

    def __init__(self, mods):
        self.mods = list(mods)
        self.classes = {}
        self.functions = {}
        self.constants = {}      # NAME = <display of constants / enum members> at module level (assigned once)
        for m in self.mods:
            tree = module_ast(m)
            self._collect(m, tree.body)

    def _collect(self, m, body):
        for s in body:
            if isinstance(s, ast.ClassDef):
                # first definition wins within one module set; qualified lookups use mod too
                ci = ClassInfo(m, s)
                self.classes.setdefault(s.name, ci)
                self.classes[f"{m}.{s.name}"] = ci
            elif isinstance(s, ast.FunctionDef):
                self.functions[f"{m}.{s.name}"] = s
                self.functions.setdefault(s.name, s)
            elif isinstance(s, ast.Try):
                self._collect(m, s.body)
            elif (isinstance(s, ast.Assign) and len(s.targets) == 1 and isinstance(s.targets[0], ast.Name)
                  and _is_constant_display(s.value)):
                nm = s.targets[0].id
                # a name bound twice at module level is not a constant
                self.constants[nm] = None if nm in self.constants else s.value

    def mro(self, cname):
        """C3 linearisation over the classes known to the program (unknown bases are leaves)."""
        def lin(c):
            ci = self.classes.get(c)
            if ci is None:
                return [c]
            seqs = [lin(b) for b in ci.bases] + [list(ci.bases)]
            res = [c]
            seqs = [s for s in seqs if s]
            while seqs:
                for s in seqs:
                    h = s[0]
                    if not any(h in t[1:] for t in seqs):
                        break
                else:
                    raise ValueError("inconsistent MRO")
                res.append(h)
                seqs = [[x for x in t if x != h] for t in seqs]
                seqs = [s for s in seqs if s]
            return res
        return lin(cname)

    def find_method(self, cname, mname, after=None):
        """-> (defining class name, FunctionDef | alias expr) following the MRO."""
        mro = self.mro(cname)
        if after is not None:
            mro = mro[mro.index(after) + 1:]
        for c in mro:
            ci = self.classes.get(c)
            if ci is None:
                continue
            if mname in ci.methods:
                return c, ci.methods[mname]
            if mname in ci.aliases:
                return c, ci.aliases[mname]
        return None, None

    def function(self, qual):
        """qual: 'pvl.mod.func' or 'pvl.mod.Class.method'."""
        if qual in self.functions:
            return None, self.functions[qual]
        mod, _, rest = qual.rpartition(".")
        # Class.method
        m2, _, cname = mod.rpartition(".")
        ci = self.classes.get(f"{m2}.{cname}")
        if ci is not None and rest in ci.methods:
            return ci, ci.methods[rest]
        raise KeyError(qual)
