"""Regular-expression back end: Python `re` patterns (read from the live grammar objects and from
`_strptime`) translated by Python's own `re._parser` parse tree into z3 regular languages;
language equivalence / inclusion / disjointness decided by z3's sequence solver.

Model limits (listed in the evidence): `\\d`, `\\s`, `\\w` are the character sets CPython's `re` gives them for str
patterns (computed from the interpreter over all code points); IGNORECASE covers ASCII letters; look-around and back-references are not supported (only a
negative look-ahead of a literal at the start of a fixed-width group is, which is what
grammar.py uses); anchors are ignored (all uses are fullmatch)."""
import re
import re._parser as sre_parse
import re._constants as C
import time

import z3

# The universe of every query is the set of strings over latin-1 (U+0000..U+00FF): the PVL character set is a subset of it, and
# z3's regex solver does not scale to the 64 ranges of Unicode decimal digits.  Characters above U+00FF are outside the model.
UNIVERSE_MAX = 0xFF
ANYCHAR = z3.AllChar(z3.ReSort(z3.StringSort()))
LATIN1 = z3.Star(z3.Range(chr(0), chr(UNIVERSE_MAX)))
_CATS = {}


def category(pat):
    """the set of characters a one-character str pattern (\\d, \\s, \\w) matches in CPython, as a union of ranges
    (computed from the interpreter itself, within the latin-1 universe of the queries, once per process)"""
    if pat not in _CATS:
        c = re.compile(pat)
        ranges = []
        start = None
        for cp in range(UNIVERSE_MAX + 1):
            hit = c.match(chr(cp)) is not None
            if hit and start is None:
                start = cp
            if not hit and start is not None:
                ranges.append((start, cp - 1))
                start = None
        if start is not None:
            ranges.append((start, UNIVERSE_MAX))
        _CATS[pat] = (ranges, z3.Union(*[z3.Range(chr(a), chr(b)) for a, b in ranges]) if len(ranges) > 1
                      else z3.Range(chr(ranges[0][0]), chr(ranges[0][1])))
    return _CATS[pat][1]


class Unsupported(Exception):
    pass


def lit(ch, icase):
    c = chr(ch)
    if icase and c.isascii() and c.isalpha():
        return z3.Union(z3.Re(c.lower()), z3.Re(c.upper()))
    return z3.Re(c)


def charset(items, icase):
    parts = []
    negate = False
    for op, av in items:
        if op is C.NEGATE:
            negate = True
        elif op is C.LITERAL:
            parts.append(lit(av, icase))
        elif op is C.RANGE:
            lo, hi = av
            parts.append(z3.Range(chr(lo), chr(hi)))
            if icase:
                for a, b in ((lo, hi),):
                    s = "".join(chr(x) for x in range(a, b + 1) if chr(x).isalpha() and chr(x).isascii())
                    for ch in s:
                        parts.append(z3.Re(ch.swapcase()))
        elif op is C.CATEGORY:
            if av is C.CATEGORY_DIGIT:
                parts.append(category(r"\d"))
            elif av is C.CATEGORY_SPACE:
                parts.append(category(r"\s"))
            elif av is C.CATEGORY_WORD:
                parts.append(category(r"\w"))
            else:
                raise Unsupported(f"category {av}")
        else:
            raise Unsupported(f"set item {op}")
    r = parts[0] if len(parts) == 1 else z3.Union(*parts)
    if negate:
        r = z3.Intersect(ANYCHAR, z3.Complement(r))
    return r


def seq(items, icase):
    out = []
    i = 0
    items = list(items)
    while i < len(items):
        op, av = items[i]
        if op is C.ASSERT_NOT and av[0] == 1:
            # negative look-ahead (?!X) followed by a fixed-width atom sequence Y: Y minus (X . anything)
            neg = seq(av[1], icase)
            rest = seq(items[i + 1:], icase)
            return cat(out + [z3.Intersect(rest, z3.Complement(z3.Concat(neg, z3.Star(ANYCHAR))))])
        out.append(node(op, av, icase))
        i += 1
    return cat(out)


def cat(parts):
    parts = [p for p in parts if p is not None]
    if not parts:
        return z3.Re("")
    if len(parts) == 1:
        return parts[0]
    return z3.Concat(*parts)


def node(op, av, icase):
    if op is C.LITERAL:
        return lit(av, icase)
    if op is C.NOT_LITERAL:
        return z3.Intersect(ANYCHAR, z3.Complement(lit(av, icase)))
    if op is C.ANY:
        return z3.Intersect(ANYCHAR, z3.Complement(z3.Re("\n")))
    if op is C.IN:
        return charset(av, icase)
    if op is C.BRANCH:
        return z3.Union(*[seq(b, icase) for b in av[1]]) if len(av[1]) > 1 else seq(av[1][0], icase)
    if op is C.SUBPATTERN:
        group, add_flags, del_flags, p = av
        return seq(p, icase or bool(add_flags & re.IGNORECASE))
    if op in (C.MAX_REPEAT, C.MIN_REPEAT):
        lo, hi, p = av
        r = seq(p, icase)
        if hi is C.MAXREPEAT:
            if lo == 0:
                return z3.Star(r)
            if lo == 1:
                return z3.Plus(r)
            return z3.Concat(z3.Loop(r, lo, lo), z3.Star(r))
        if lo == 0 and hi == 1:
            return z3.Option(r)
        return z3.Loop(r, lo, hi)
    if op is C.AT:
        return None
    raise Unsupported(f"regex op {op}")


def to_z3(pattern, flags=0):
    if isinstance(pattern, re.Pattern):
        flags |= pattern.flags
        pattern = pattern.pattern
    tree = sre_parse.parse(pattern, flags)
    icase = bool((flags | tree.state.flags) & re.IGNORECASE)
    return seq(tree, icase)


def union(*rs):
    rs = [r for r in rs if r is not None]
    return rs[0] if len(rs) == 1 else z3.Union(*rs)


def _solve(constraint_fn, rlimit=40_000_000):
    s = z3.Solver()
    s.set("rlimit", rlimit)
    x = z3.String("w")
    s.add(z3.InRe(x, LATIN1))
    s.add(constraint_fn(x))
    t = time.time()
    r = s.check()
    dt = time.time() - t
    if r == z3.sat:
        return "sat", s.model()[x].as_string(), dt
    if r == z3.unsat:
        return "unsat", None, dt
    return "unknown", s.reason_unknown(), dt


def witness_in(a, not_in=None, also_in=None, max_len=None):
    """a string in L(a) [and L(also_in)] [but not in L(not_in)] -> (status, witness, seconds)"""
    def c(x):
        fs = [z3.InRe(x, a)]
        if also_in is not None:
            fs.append(z3.InRe(x, also_in))
        if not_in is not None:
            fs.append(z3.Not(z3.InRe(x, not_in)))
        if max_len is not None:
            fs.append(z3.Length(x) <= max_len)
        return z3.And(*fs)
    return _solve(c)


def unescape(w):
    """z3 prints non-printable characters as \\u{..}"""
    return re.sub(r"\\u\{([0-9a-fA-F]+)\}", lambda m: chr(int(m.group(1), 16)), w)
