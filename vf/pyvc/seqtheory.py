"""T_seq: the theory used for pvl/collections.py.

Abstract view of a multi-dict object `o`:
    o.items : Seq<Pair<K,V>>   (the private list  self.__items)
    o.has   : K -> Bool        (key present in the dict storage)
    o.d     : K -> Seq<V>      (dict storage: list of values per key)
Spec functions proj/dropk/keys/vals/pos are monoid homomorphisms on Seq<Pair>, axiomatised
(empty / unit / ++) with the derived lemmas listed in `axioms()`; every axiom is a theorem
about Lean's List proved in lean/SeqAx.lean.

Aliasing handled (exactly what the real code does): the list stored under a key in the dict
storage is reached through a DictSlot reference (append/pop/[0]/truth/list-copy); an
iterator over the private list reads it live by position; re-binding the private list detaches
live iterators (they keep the old list).  A reference to the private list or to a stored
value list that escapes (returned, stored elsewhere) fails the ownership obligation.
"""
import ast

import z3

from .core import (Conc, Z, TupV, ExcV, ObjV, BoundM, FuncV, OPAQUE_STR, OpaqueStr, PyRaise,
                   Untranslatable, PathEnd, fresh, _Break, _Continue, assigned_names)
from .theory import BaseTheory, Lazy

K = z3.DeclareSort("K")
V = z3.DeclareSort("V")
_P = z3.Datatype("Pair")
_P.declare("mk", ("fst", K), ("snd", V))
Pair = _P.create()
mk, fst, snd = Pair.mk, Pair.fst, Pair.snd
SeqP = z3.SeqSort(Pair)
SeqV = z3.SeqSort(V)
SeqK = z3.SeqSort(K)
SeqI = z3.SeqSort(z3.IntSort())
I = z3.IntSort()
InsArgs = z3.DeclareSort("InsArgs")
Item = z3.DeclareSort("Item")

proj = z3.Function("proj", SeqP, K, SeqV)
dropk = z3.Function("dropk", SeqP, K, SeqP)
keysf = z3.Function("keys", SeqP, SeqK)
valsf = z3.Function("vals", SeqP, SeqV)
posf = z3.Function("pos", SeqP, K, I, SeqI)          # positions of key k, offset by third arg
setspec = z3.Function("setspec", SeqP, K, V, SeqP)   # result of  m[k] = v  on list L
clampf = z3.Function("clampidx", I, I, I)        # where list.insert(i, x) puts x in a list of length n
startf = z3.Function("startidx", I, I, I)        # a negative index normalised once (not clamped above)
memP = z3.Function("memP", SeqP, Pair, z3.BoolSort())   # membership, as a homomorphism into (Bool, or)
memV = z3.Function("memV", SeqV, V, z3.BoolSort())
memK = z3.Function("memK", SeqK, K, z3.BoolSort())
foldset = z3.Function("foldset", SeqP, SeqP, SeqP)   # left fold of setspec over a list of pairs
kvof = z3.Function("kvof", InsArgs, SeqP)            # pairs denoted by the arguments of insert()
kv_ok = z3.Function("kv_ok", InsArgs, z3.BoolSort())
tup1 = z3.Function("tup1", Item, InsArgs)            # the 1-tuple (new_item,)
pairs_of_kw = None

EMPTY_P = z3.Empty(SeqP)
EMPTY_V = z3.Empty(SeqV)
EMPTY_K = z3.Empty(SeqK)
EMPTY_I = z3.Empty(SeqI)

SORT_OF_KIND = {"K": K, "V": V, "pair": Pair, "seqP": SeqP, "seqV": SeqV, "seqK": SeqK,
                "seqI": SeqI, "int": I, "bool": z3.BoolSort(), "insargs": InsArgs, "item": Item}
ELEM_KIND = {"seqP": "pair", "seqV": "V", "seqK": "K", "seqI": "int"}
SEQ_OF_ELEM = {"pair": "seqP", "V": "seqV", "K": "seqK", "int": "seqI"}
MARKER = object()


def sub(s, lo, hi):
    """s[lo:hi] for 0 <= lo <= hi <= len(s)"""
    return z3.SubSeq(s, lo, hi - lo)


def clamp_ite(i, n):
    return z3.If(i < 0, z3.If(n + i < 0, z3.IntVal(0), n + i), z3.If(i > n, n, i))


def start_ite(i, n):
    return z3.If(i < 0, z3.If(n + i < 0, z3.IntVal(0), n + i), i)


def axiom_list():
    a, b = z3.Consts("a b", SeqP)
    p = z3.Const("p", Pair)
    k, k2 = z3.Consts("k k2", K)
    v = z3.Const("v", V)
    o = z3.Const("o", I)
    i = z3.Const("i", I)
    ax = []

    def fa(vs, body, pats):
        return z3.ForAll(vs, body, patterns=pats)

    # homomorphisms --------------------------------------------------------------
    ax += [proj(EMPTY_P, k) == EMPTY_V if False else fa([k], proj(EMPTY_P, k) == EMPTY_V, [proj(EMPTY_P, k)])]
    ax += [fa([p, k], proj(z3.Unit(p), k) == z3.If(fst(p) == k, z3.Unit(snd(p)), EMPTY_V), [proj(z3.Unit(p), k)])]
    ax += [fa([a, b, k], proj(z3.Concat(a, b), k) == z3.Concat(proj(a, k), proj(b, k)), [proj(z3.Concat(a, b), k)])]
    ax += [fa([k], dropk(EMPTY_P, k) == EMPTY_P, [dropk(EMPTY_P, k)])]
    ax += [fa([p, k], dropk(z3.Unit(p), k) == z3.If(fst(p) == k, EMPTY_P, z3.Unit(p)), [dropk(z3.Unit(p), k)])]
    ax += [fa([a, b, k], dropk(z3.Concat(a, b), k) == z3.Concat(dropk(a, k), dropk(b, k)), [dropk(z3.Concat(a, b), k)])]
    ax += [keysf(EMPTY_P) == EMPTY_K, valsf(EMPTY_P) == EMPTY_V]
    ax += [fa([p], keysf(z3.Unit(p)) == z3.Unit(fst(p)), [keysf(z3.Unit(p))])]
    ax += [fa([p], valsf(z3.Unit(p)) == z3.Unit(snd(p)), [valsf(z3.Unit(p))])]
    ax += [fa([a, b], keysf(z3.Concat(a, b)) == z3.Concat(keysf(a), keysf(b)), [keysf(z3.Concat(a, b))])]
    ax += [fa([a, b], valsf(z3.Concat(a, b)) == z3.Concat(valsf(a), valsf(b)), [valsf(z3.Concat(a, b))])]
    ax += [fa([k, o], posf(EMPTY_P, k, o) == EMPTY_I, [posf(EMPTY_P, k, o)])]
    ax += [fa([p, k, o], posf(z3.Unit(p), k, o) == z3.If(fst(p) == k, z3.Unit(o), EMPTY_I), [posf(z3.Unit(p), k, o)])]
    ax += [fa([a, b, k, o], posf(z3.Concat(a, b), k, o) == z3.Concat(posf(a, k, o), posf(b, k, o + z3.Length(a))),
              [posf(z3.Concat(a, b), k, o)])]
    # derived lemmas (Lean: SeqAx) ----------------------------------------------
    ax += [fa([a, k], proj(dropk(a, k), k) == EMPTY_V, [proj(dropk(a, k), k)])]
    ax += [fa([a, k, k2], z3.Implies(k != k2, proj(dropk(a, k), k2) == proj(a, k2)), [proj(dropk(a, k), k2)])]
    ax += [fa([a, k], z3.Implies(z3.Length(proj(a, k)) == 0, dropk(a, k) == a), [dropk(a, k)])]
    ax += [fa([a, k], z3.Length(dropk(a, k)) <= z3.Length(a), [dropk(a, k)])]
    ax += [fa([a, k], z3.Length(proj(a, k)) <= z3.Length(a), [proj(a, k)])]
    ax += [fa([a], z3.Length(keysf(a)) == z3.Length(a), [keysf(a)])]
    ax += [fa([a], z3.Length(valsf(a)) == z3.Length(a), [valsf(a)])]
    ax += [fa([a, i], z3.Implies(z3.And(0 <= i, i < z3.Length(a)), keysf(a)[i] == fst(a[i])), [keysf(a)[i]])]
    ax += [fa([a, i], z3.Implies(z3.And(0 <= i, i < z3.Length(a)), valsf(a)[i] == snd(a[i])), [valsf(a)[i]])]
    sv1, sv2 = z3.Consts("sv1 sv2", SeqV)
    sk1, sk2 = z3.Consts("sk1 sk2", SeqK)
    p2 = z3.Const("p2", Pair)
    v2 = z3.Const("v2", V)
    ax += [fa([p], memP(EMPTY_P, p) == z3.BoolVal(False), [memP(EMPTY_P, p)])]
    ax += [fa([p, p2], memP(z3.Unit(p2), p) == (p2 == p), [memP(z3.Unit(p2), p)])]
    ax += [fa([a, b, p], memP(z3.Concat(a, b), p) == z3.Or(memP(a, p), memP(b, p)), [memP(z3.Concat(a, b), p)])]
    ax += [fa([v], memV(EMPTY_V, v) == z3.BoolVal(False), [memV(EMPTY_V, v)])]
    ax += [fa([v, v2], memV(z3.Unit(v2), v) == (v2 == v), [memV(z3.Unit(v2), v)])]
    ax += [fa([sv1, sv2, v], memV(z3.Concat(sv1, sv2), v) == z3.Or(memV(sv1, v), memV(sv2, v)),
              [memV(z3.Concat(sv1, sv2), v)])]
    ax += [fa([k], memK(EMPTY_K, k) == z3.BoolVal(False), [memK(EMPTY_K, k)])]
    ax += [fa([k, k2], memK(z3.Unit(k2), k) == (k2 == k), [memK(z3.Unit(k2), k)])]
    ax += [fa([sk1, sk2, k], memK(z3.Concat(sk1, sk2), k) == z3.Or(memK(sk1, k), memK(sk2, k)),
              [memK(z3.Concat(sk1, sk2), k)])]
    ax += [fa([a, k, v], memV(proj(a, k), v) == memP(a, mk(k, v)), [memV(proj(a, k), v)])]
    ax += [fa([a, k], memK(keysf(a), k) == (z3.Length(proj(a, k)) > 0), [memK(keysf(a), k)])]
    # setspec: absent key appends
    ax += [fa([a, k, v], z3.Implies(z3.Length(proj(a, k)) == 0,
                                    setspec(a, k, v) == z3.Concat(a, z3.Unit(mk(k, v)))), [setspec(a, k, v)])]
    n_ = z3.Const("n_", I)
    ax += [fa([i, n_], clampf(i, n_) == clamp_ite(i, n_), [clampf(i, n_)])]
    ax += [fa([i, n_], startf(i, n_) == start_ite(i, n_), [startf(i, n_)])]
    # foldset: left fold of the assignment spec
    ax += [fa([a], foldset(a, EMPTY_P) == a, [foldset(a, EMPTY_P)])]
    ax += [fa([a, b, p], foldset(a, z3.Concat(b, z3.Unit(p))) == setspec(foldset(a, b), fst(p), snd(p)),
              [foldset(a, z3.Concat(b, z3.Unit(p)))])]
    return ax


def ax_setspec_present(L, a, p, b, k, v):
    """Instance of: L = a ++ [p] ++ b, k not in a, fst p = k  =>  setspec(L,k,v) = a ++ [(k,v)] ++ dropk(b,k)"""
    return z3.Implies(z3.And(L == z3.Concat(a, z3.Unit(p), b), z3.Length(proj(a, k)) == 0, fst(p) == k),
                      setspec(L, k, v) == z3.Concat(a, z3.Unit(mk(k, v)), dropk(b, k)))


def ax_proj_first(L, a, p, b, k):
    """Instance of: L = a ++ [p] ++ b, k not in a, fst p = k => proj(L,k)[0] = snd p"""
    return z3.Implies(z3.And(L == z3.Concat(a, z3.Unit(p), b), z3.Length(proj(a, k)) == 0, fst(p) == k),
                      proj(L, k)[0] == snd(p))


_TWINS = None


def rec_twins():
    """Recursive definitions of the spec functions, used only to search for counter-models of an
    undecided obligation (bounded lengths).  Same functions as the axioms describe."""
    global _TWINS
    if _TWINS is not None:
        return _TWINS
    L = z3.Const("rl", SeqP)
    S2 = z3.Const("rs", SeqP)
    k = z3.Const("rk", K)
    v = z3.Const("rv", V)
    o = z3.Const("ro", I)
    n = z3.Length(L)
    tl = z3.SubSeq(L, 1, n - 1)
    h = L[0]
    R = {}
    projR = z3.RecFunction("projR", SeqP, K, SeqV)
    z3.RecAddDefinition(projR, [L, k], z3.If(n == 0, EMPTY_V, z3.Concat(z3.If(fst(h) == k, z3.Unit(snd(h)), EMPTY_V), projR(tl, k))))
    dropR = z3.RecFunction("dropR", SeqP, K, SeqP)
    z3.RecAddDefinition(dropR, [L, k], z3.If(n == 0, EMPTY_P, z3.Concat(z3.If(fst(h) == k, EMPTY_P, z3.Unit(h)), dropR(tl, k))))
    keysR = z3.RecFunction("keysR", SeqP, SeqK)
    z3.RecAddDefinition(keysR, [L], z3.If(n == 0, EMPTY_K, z3.Concat(z3.Unit(fst(h)), keysR(tl))))
    valsR = z3.RecFunction("valsR", SeqP, SeqV)
    z3.RecAddDefinition(valsR, [L], z3.If(n == 0, EMPTY_V, z3.Concat(z3.Unit(snd(h)), valsR(tl))))
    posR = z3.RecFunction("posR", SeqP, K, I, SeqI)
    z3.RecAddDefinition(posR, [L, k, o], z3.If(n == 0, EMPTY_I, z3.Concat(z3.If(fst(h) == k, z3.Unit(o), EMPTY_I), posR(tl, k, o + 1))))
    uptoR = z3.RecFunction("uptoR", SeqP, K, SeqP)
    z3.RecAddDefinition(uptoR, [L, k], z3.If(n == 0, EMPTY_P, z3.If(fst(h) == k, EMPTY_P, z3.Concat(z3.Unit(h), uptoR(tl, k)))))
    afterR = z3.RecFunction("afterR", SeqP, K, SeqP)
    z3.RecAddDefinition(afterR, [L, k], z3.If(n == 0, EMPTY_P, z3.If(fst(h) == k, tl, afterR(tl, k))))
    setR = z3.RecFunction("setspecR", SeqP, K, V, SeqP)
    z3.RecAddDefinition(setR, [L, k, v], z3.If(z3.Length(projR(L, k)) == 0, z3.Concat(L, z3.Unit(mk(k, v))),
                                              z3.Concat(uptoR(L, k), z3.Unit(mk(k, v)), dropR(afterR(L, k), k))))
    foldR = z3.RecFunction("foldsetR", SeqP, SeqP, SeqP)
    ns = z3.Length(S2)
    z3.RecAddDefinition(foldR, [L, S2], z3.If(ns == 0, L, foldR(setR(L, fst(S2[0]), snd(S2[0])), z3.SubSeq(S2, 1, ns - 1))))
    p = z3.Const("rp", Pair)
    memPR = z3.RecFunction("memPR", SeqP, Pair, z3.BoolSort())
    z3.RecAddDefinition(memPR, [L, p], z3.If(n == 0, z3.BoolVal(False), z3.Or(h == p, memPR(tl, p))))
    sv = z3.Const("rsv", SeqV)
    memVR = z3.RecFunction("memVR", SeqV, V, z3.BoolSort())
    z3.RecAddDefinition(memVR, [sv, v], z3.If(z3.Length(sv) == 0, z3.BoolVal(False),
                                               z3.Or(sv[0] == v, memVR(z3.SubSeq(sv, 1, z3.Length(sv) - 1), v))))
    sk = z3.Const("rsk", SeqK)
    memKR = z3.RecFunction("memKR", SeqK, K, z3.BoolSort())
    z3.RecAddDefinition(memKR, [sk, k], z3.If(z3.Length(sk) == 0, z3.BoolVal(False),
                                               z3.Or(sk[0] == k, memKR(z3.SubSeq(sk, 1, z3.Length(sk) - 1), k))))
    i_, n_ = z3.Consts("ri rn", I)
    clampR = z3.RecFunction("clampR", I, I, I)
    z3.RecAddDefinition(clampR, [i_, n_], clamp_ite(i_, n_))
    startR = z3.RecFunction("startR", I, I, I)
    z3.RecAddDefinition(startR, [i_, n_], start_ite(i_, n_))
    _TWINS = {proj: projR, dropk: dropR, keysf: keysR, valsf: valsR, posf: posR, setspec: setR, foldset: foldR,
              memP: memPR, memV: memVR, memK: memKR, clampf: clampR, startf: startR}
    return _TWINS


def to_py(m, t):
    """Concrete Python value of term t in model m (keys -> 'k<i>', values -> ints, pairs, lists)."""
    e = m.eval(t, model_completion=True)
    return _val(e)


def _val(e):
    srt = e.sort()
    if srt == K or srt == V or srt == Item or srt == InsArgs:
        nm = str(e)
        num = nm.rsplit("!", 1)[-1]
        num = int(num) if num.isdigit() else abs(hash(nm)) % 1000
        return f"k{num}" if srt == K else (num if srt == V else nm)
    if srt == Pair:
        return (_val(e.arg(0)), _val(e.arg(1)))
    if z3.is_int_value(e):
        return e.as_long()
    if z3.is_true(e) or z3.is_false(e):
        return z3.is_true(e)
    if z3.is_seq(e):
        kd = e.decl().kind()
        if kd == z3.Z3_OP_SEQ_EMPTY:
            return []
        if kd == z3.Z3_OP_SEQ_UNIT:
            return [_val(e.arg(0))]
        if kd == z3.Z3_OP_SEQ_CONCAT:
            out = []
            for c in e.children():
                out.extend(_val(c))
            return out
    return str(e)


def mem(kind, s, x):
    return {"seqP": memP, "seqV": memV, "seqK": memK}[kind](s, x)


def first_at(kind, s, x, r):
    """r is the first position of x in s (what list.index returns)"""
    return z3.And(0 <= r, r < z3.Length(s), s[r] == x, z3.Not(mem(kind, sub(s, 0, r), x)))


def WF(s, k):
    return z3.And(z3.Select(s.has, k) == (z3.Length(proj(s.items, k)) > 0),
                  z3.Implies(z3.Select(s.has, k), z3.Select(s.d, k) == proj(s.items, k)))


class Snap:
    """View of a state snapshot for one multi-dict object."""

    def __init__(self, th, oid):
        self.th = th
        self.oid = oid

    @property
    def items(self):
        return self.th[f"{self.oid}.items"]

    @property
    def has(self):
        return self.th[f"{self.oid}.has"]

    @property
    def d(self):
        return self.th[f"{self.oid}.d"]

    def of(self, obj):
        return Snap(self.th, obj.info["oid"])

    def get(self, key, default=None):
        return self.th.get(key, default)


def wf_lazy(snap):
    return Lazy(lambda ks: [WF(snap, k) for k in ks], tag="WF")


def k_terms(formulas):
    seen = set()
    out = []
    todo = list(formulas)
    visited = set()
    while todo:
        e = todo.pop()
        if e.get_id() in visited:
            continue
        visited.add(e.get_id())
        if z3.is_quantifier(e):
            continue
        if e.sort() == K and not z3.is_var(e):
            if e.get_id() not in seen:
                seen.add(e.get_id())
                out.append(e)
        todo.extend(e.children())
    return out


class FieldRef:
    """Reference to the private list of object oid (never allowed to escape)."""

    def __init__(self, oid):
        self.oid = oid

    def __repr__(self):
        return f"FieldRef({self.oid}.items)"


class DictSlot:
    """Reference to the value list stored under key k in the dict storage of oid."""

    def __init__(self, oid, k):
        self.oid = oid
        self.k = k

    def __repr__(self):
        return f"DictSlot({self.oid},{self.k})"


class IterV:
    """Iterator over a sequence source.  src: ('field', oid) live, or ('snap', term)."""
    n = 0

    def __init__(self, src, kind):
        IterV.n += 1
        self.id = f"iter{IterV.n}"
        self.src = src
        self.kind = kind          # kind of the sequence

    def __repr__(self):
        return f"IterV({self.id},{self.src[0]})"


class EnumV:
    def __init__(self, inner, offset):
        self.inner = inner
        self.offset = offset


class ZipV:
    def __init__(self, a, b):
        self.a = a
        self.b = b


class ClassV:
    def __init__(self, name, of=None):
        self.name = name
        self.of = of


class SeqTheory(BaseTheory):
    name = "T_seq"

    def axioms(self):
        return axiom_list()

    def expand(self, formulas, lazies):
        ks = k_terms(formulas)
        if not ks:
            ks = [z3.Const("k_any", K)]
        out = []
        for lz in lazies:
            out.extend(lz.fn(ks))
        # a second round: the instances may mention no new K terms (WF does not)
        return out

    def refute(self, prover, pc, goal, timeout_ms=15000, bound=3):
        """Search a counter-model of  pc => goal  with the spec functions given by their recursive
        definitions and every sequence constant bounded in length.  -> model or None."""
        tw = rec_twins()
        plain = [f for f in pc if z3.is_expr(f) and not z3.is_quantifier(f)]
        lazy = [f for f in pc if not z3.is_expr(f)]
        fs = plain + [z3.Not(goal)]
        fs += self.expand(fs, lazy)
        subs = []
        for a, b in tw.items():
            subs.append((a, b(*[z3.Var(i, a.domain(i)) for i in range(a.arity())])))
        s = z3.Solver()
        s.set("timeout", timeout_ms)
        consts = {}
        for f in fs:
            g = z3.substitute_funs(f, *subs)
            s.add(g)
            todo = [g]
            seen = set()
            while todo:
                e = todo.pop()
                if e.get_id() in seen or z3.is_quantifier(e):
                    continue
                seen.add(e.get_id())
                if z3.is_const(e) and e.decl().kind() == z3.Z3_OP_UNINTERPRETED and z3.is_seq(e):
                    consts[e.get_id()] = e
                todo.extend(e.children())
        for c in consts.values():
            s.add(z3.Length(c) <= bound)
        if s.check() == z3.sat:
            return s.model()
        return None

    # ---- objects -----------------------------------------------------------------
    def new_md(self, ex, oid, cls, wf=True, fresh_state=True):
        if fresh_state:
            ex.st.th[f"{oid}.items"] = fresh(f"{oid}_items", SeqP)
            ex.st.th[f"{oid}.has"] = fresh(f"{oid}_has", z3.ArraySort(K, z3.BoolSort()))
            ex.st.th[f"{oid}.d"] = fresh(f"{oid}_d", z3.ArraySort(K, SeqV))
        o = ObjV("md", cls=cls, info={"oid": oid})
        if wf:
            ex.st.assume(wf_lazy(Snap(dict(ex.st.th), oid)))
        return o

    def make_self(self, ex, fv):
        cls = fv.cls_name
        if cls in ("KeysView", "ItemsView", "ValuesView", "MappingView"):
            return ObjV("self", cls=cls, info={"oid": "self", "view": True})
        return ObjV("self", cls=cls, info={"oid": "self"})

    def init_state(self, ex, fv):
        slf = ex.args.get("self")
        c = fv.contract
        if slf is not None and slf.info.get("view"):
            m = self.new_md(ex, "m", "OrderedMultiDict")
            if fv.fn.name != "__init__":
                ex.st.th["self._mapping"] = m
        elif slf is not None:
            ex.st.th["self.items"] = fresh("L", SeqP)
            ex.st.th["self.has"] = fresh("has", z3.ArraySort(K, z3.BoolSort()))
            ex.st.th["self.d"] = fresh("d", z3.ArraySort(K, SeqV))
            if fv.fn.name == "__init__":
                # a new dict subclass instance: empty storage, private list not yet bound
                ex.st.th["self.has"] = z3.K(K, z3.BoolVal(False))
                ex.st.th["self.unbound_items"] = True
            else:
                ex.st.assume(wf_lazy(Snap(dict(ex.st.th), "self")))

    def view(self, snap, recv):
        oid = "self"
        if isinstance(recv, ObjV):
            if recv.role == "self" and recv.info.get("view"):
                oid = "m"
            else:
                oid = recv.info.get("oid", "self")
        return Snap(snap, oid)

    def call_contract(self, ex, c, recv, args, kwargs, label):
        ex.st.ghost["call_recv"] = recv
        r = super().call_contract(ex, c, recv, args, kwargs, label)
        vc = getattr(c, "view_cls", None)
        if vc is not None:
            return ObjV("view", cls=vc, info={"of": recv, "oid": recv.info["oid"], "view": True, "mapping": recv})
        return r

    def fresh_of_kind(self, kind, nm):
        if kind in SORT_OF_KIND and kind not in ("int", "bool"):
            return Z(kind, fresh(nm, SORT_OF_KIND[kind]))
        if kind == "marker":
            return Conc(MARKER)
        if kind.startswith("md"):
            raise Untranslatable("md kinds are created by the case builder")
        return super().fresh_of_kind(kind, nm)

    def fresh_result(self, ex, res, label):
        recv = ex.st.ghost.get("call_recv")
        if res == "md":
            IterV.n += 1
            oid = f"new{IterV.n}"
            o = self.new_md(ex, oid, recv.cls if recv is not None else "OrderedMultiDict", wf=False)
            o.info["fresh"] = True
            return o
        if res == "iter":
            return self.register_iter(ex, IterV(("field", recv.info["oid"]), "seqP"))
        if res == "any":
            return ObjV("any")
        return super().fresh_result(ex, res, label)

    def result_conforms(self, ex, res_kind, v):
        if isinstance(v, (FieldRef, DictSlot)):
            return False            # ownership: a private list escapes
        if res_kind == "iter":
            return isinstance(v, IterV)
        if isinstance(res_kind, str) and res_kind.startswith("view:"):
            return isinstance(v, ObjV) and v.cls == res_kind[5:]
        if res_kind == "md":
            return isinstance(v, ObjV) and v.role == "md"
        if res_kind == "pair" and isinstance(v, TupV) and len(v.items) == 2:
            return True
        if res_kind == "any":
            return True
        if isinstance(v, Z) and v.kind == "seq?" and isinstance(res_kind, str) and res_kind.startswith("seq"):
            return True
        return super().result_conforms(ex, res_kind, v)

    def coerce_result(self, ex, res_kind, v):
        if isinstance(v, Z) and v.kind == "seq?" and isinstance(res_kind, str) and res_kind.startswith("seq"):
            return Z(res_kind, z3.Empty(SORT_OF_KIND[res_kind]))
        if res_kind == "pair" and isinstance(v, TupV):
            return Z("pair", mk(v.items[0].t, v.items[1].t))
        return super().coerce_result(ex, res_kind, v)

    # ---- havoc -----------------------------------------------------------------
    def mutated_oids(self, ex, body):
        """Objects whose abstract state the statements may modify (syntactic, conservative)."""
        oids = set()
        for n in body:
            for c in ast.walk(n):
                if isinstance(c, ast.Call):
                    f = c.func
                    if isinstance(f, ast.Name) and f.id in ("dict_setitem", "dict_delitem", "dict_clear"):
                        oids.add("self")
                    if isinstance(f, ast.Name) and f.id == "dict_getitem":
                        oids.add("self")      # the slot may be mutated through the reference
                    if isinstance(f, ast.Attribute):
                        recv = f.value
                        if isinstance(recv, ast.Name) and recv.id == "self":
                            oids.add("self")  # any method call on self may modify it
                        if isinstance(recv, ast.Attribute) and isinstance(recv.value, ast.Name) \
                                and recv.value.id == "self" and recv.attr.endswith("__items"):
                            oids.add("self")
                if isinstance(c, (ast.Assign, ast.AugAssign, ast.Delete)):
                    targets = c.targets if not isinstance(c, ast.AugAssign) else [c.target]
                    for t in targets:
                        for x in ast.walk(t):
                            if isinstance(x, ast.Name) and x.id == "self":
                                oids.add("self")
        return oids

    def havoc_state(self, ex, body, modifies):
        oids = self.mutated_oids(ex, body) if modifies is None else set(modifies)
        for oid in oids:
            if f"{oid}.items" in ex.st.th:
                self.detach_iters(ex, oid)
                ex.st.th[f"{oid}.items"] = fresh(f"{oid}_items", SeqP)
                ex.st.th[f"{oid}.has"] = fresh(f"{oid}_has", z3.ArraySort(K, z3.BoolSort()))
                ex.st.th[f"{oid}.d"] = fresh(f"{oid}_d", z3.ArraySort(K, SeqV))
        ex.st.ghost["havoced"] = oids

    def havoc_value(self, ex, old, nm):
        if isinstance(old, (ObjV, IterV, EnumV, ZipV, FieldRef, ClassV, FuncV, BoundM, OpaqueStr, Conc)):
            return old
        return old

    def havoc_for_call(self, ex, c, recv=None):
        if c.pure:
            return
        oid = self.view(ex.st.th, recv).oid
        self.detach_iters(ex, oid)
        ex.st.th[f"{oid}.items"] = fresh(f"{oid}_items", SeqP)
        ex.st.th[f"{oid}.has"] = fresh(f"{oid}_has", z3.ArraySort(K, z3.BoolSort()))
        ex.st.th[f"{oid}.d"] = fresh(f"{oid}_d", z3.ArraySort(K, SeqV))
        ex.st.th.pop(f"{oid}.unbound_items", None)

    def after_call(self, ex, c, pre, post):
        if getattr(c, "wf_post", False):
            ex.st.assume(wf_lazy(Snap(dict(ex.st.th), post.oid)))

    def detach_iters(self, ex, oid):
        """The private list object of oid is about to be replaced: live iterators keep the old one."""
        for key, it in list(ex.st.ghost.get("iters", {}).items()):
            if it.src == ("field", oid):
                it.src = ("snap", ex.st.th[f"{oid}.items"])

    # ---- names -----------------------------------------------------------------
    def global_name(self, ex, name):
        if name in ("dict_setitem", "dict_getitem", "dict_delitem", "dict_contains", "dict_clear",
                    "iter", "enumerate", "zip", "list", "len", "type", "isinstance", "hasattr", "str",
                    "abc", "_insert_arg_helper", "next", "tuple", "super", "max", "any", "all"):
            return FuncV(name)
        if self.program and name in self.program.classes:
            return FuncV(name)
        return None

    def field(self, ex, recv, attr):
        if attr.endswith("__items"):
            oid = recv.info["oid"]
            if ex.st.th.get(f"{oid}.unbound_items"):
                ex.oblige(f"{ex.fv.qual}:private-list-bound-before-use", False)
                raise PathEnd()
            return FieldRef(oid)
        if attr == "_mapping":
            v = ex.st.th.get("self._mapping")
            if v is None:
                ex.oblige(f"{ex.fv.qual}:field-bound:_mapping", False)
                raise PathEnd()
            return v
        if attr.endswith("__marker"):
            return Conc(MARKER)
        raise Untranslatable(f"field {attr}")

    def getattr(self, ex, recv, attr):
        if isinstance(recv, ObjV) and recv.role in ("md", "view"):
            return BoundM(recv, attr)
        if isinstance(recv, (FieldRef, DictSlot, IterV)):
            return BoundM(recv, attr)
        if isinstance(recv, Z) and recv.kind.startswith("seq"):
            return BoundM(recv, attr)
        if isinstance(recv, Z) and recv.kind in ("kwargs",):
            return BoundM(recv, attr)
        return super().getattr(ex, recv, attr)

    def setattr(self, ex, recv, attr, v):
        if isinstance(recv, ObjV) and attr.endswith("__items"):
            oid = recv.info["oid"]
            if isinstance(v, Z) and v.kind == "seq?":
                v = Z("seqP", EMPTY_P)
            if isinstance(v, Z) and v.kind == "seqP":
                self.detach_iters(ex, oid)
                ex.st.th[f"{oid}.items"] = v.t
                ex.st.th.pop(f"{oid}.unbound_items", None)
                return
            raise Untranslatable(f"private list bound to a non-fresh value {v!r} (ownership)")
        if isinstance(recv, ObjV) and recv.info.get("view") and attr == "_mapping":
            ex.st.th["self._mapping"] = v
            return
        raise Untranslatable(f"store to {recv!r}.{attr}")

    # ---- segment normal form ---------------------------------------------------------
    # Sequence terms built by the executor are kept as concatenations of named pieces with
    # known lengths; taking a slice at piece boundaries (alignment proved by a quantifier-free
    # query under the path condition) returns the pieces themselves, so the obligations the
    # solver sees are nearly syntactic.  Semantics are unchanged: every rewrite is an
    # equality valid under the path condition.
    def _parts(self, ex, t):
        return ex.st.ghost.setdefault("parts", {}).get(t.get_id())

    def _len(self, ex, t):
        if t.decl().kind() == z3.Z3_OP_SEQ_UNIT:
            return z3.IntVal(1)
        if t.decl().kind() == z3.Z3_OP_SEQ_EMPTY:
            return z3.IntVal(0)
        ln = ex.st.ghost.setdefault("lens", {}).get(t.get_id())
        return ln if ln is not None else z3.Length(t)

    def cat(self, ex, *pieces):
        flat = []
        for p_ in pieces:
            if p_.decl().kind() == z3.Z3_OP_SEQ_EMPTY:
                continue
            ps = self._parts(ex, p_)
            flat.extend(ps if ps else [p_])
        if not flat:
            return z3.Empty(pieces[0].sort())
        if len(flat) == 1:
            return flat[0]
        t = z3.Concat(*flat)
        ex.st.ghost.setdefault("parts", {})[t.get_id()] = flat
        return t

    def qf_valid(self, ex, f):
        return ex.path.cached(lambda: self._qf_valid(ex, f))

    def _qf_valid(self, ex, f):
        s = z3.Solver()
        s.set("timeout", 400)
        for g in ex.st.pc:
            if z3.is_expr(g) and not z3.is_quantifier(g):
                s.add(g)
        s.add(z3.Not(f))
        return s.check() == z3.unsat

    def subseq(self, ex, t, lo, hi):
        """t[lo:hi] for 0 <= lo <= hi <= len(t) (callers establish the bounds)."""
        ps = self._parts(ex, t) or [t]
        pref = [z3.IntVal(0)]
        for p_ in ps:
            pref.append(z3.simplify(pref[-1] + self._len(ex, p_)))
        lo_s, hi_s = z3.simplify(lo), z3.simplify(hi)
        j = k = None
        for idx, b in enumerate(pref):
            if j is None and (z3.eq(b, lo_s) or self.qf_valid(ex, b == lo)):
                j = idx
            if j is not None and idx >= j and (z3.eq(b, hi_s) or self.qf_valid(ex, b == hi)):
                k = idx
                break
        if j is not None and k is not None:
            seg = ps[j:k]
            if not seg:
                return z3.Empty(t.sort())
            return self.cat(ex, *seg)
        r = sub(t, lo, hi)
        ex.st.ghost.setdefault("lens", {})[r.get_id()] = hi - lo
        ex.st.assume(z3.Length(r) == hi - lo)
        return r

    def learn(self, ex, f):
        """From an assumed fact  X == a ++ b ++ ...  (X a constant) remember the pieces of X."""
        if not (z3.is_expr(f) and z3.is_eq(f)):
            return
        lhs, rhs = f.arg(0), f.arg(1)
        if not z3.is_seq(lhs):
            return
        if rhs.num_args() == 0 and lhs.num_args() > 0:
            lhs, rhs = rhs, lhs
        if lhs.num_args() != 0 or rhs.decl().kind() != z3.Z3_OP_SEQ_CONCAT:
            return
        pieces = []

        def flat(t):
            if t.decl().kind() == z3.Z3_OP_SEQ_CONCAT:
                for c in t.children():
                    flat(c)
            elif t.decl().kind() != z3.Z3_OP_SEQ_EMPTY:
                pieces.append(t)
        flat(rhs)
        lens = ex.st.ghost.setdefault("lens", {})
        for t in pieces:
            if t.decl().kind() == z3.Z3_OP_SEQ_EXTRACT:
                x, lo, ln = t.children()
                if self.qf_valid(ex, z3.And(lo >= 0, ln >= 0, lo + ln <= z3.Length(x))):
                    lens[t.get_id()] = ln
                    ex.st.assume(z3.Length(t) == ln)
        ex.st.ghost.setdefault("parts", {})[lhs.get_id()] = pieces

    def split_at(self, ex, t, i):
        """register t = t[:i] ++ [t[i]] ++ t[i+1:]  (0 <= i < len t on this path)"""
        n = z3.Length(t)
        ps = self._parts(ex, t)
        if ps is None:
            a = self.subseq(ex, t, z3.IntVal(0), i)
            b = self.subseq(ex, t, i + 1, n)
            u = z3.Unit(t[i])
            ex.st.ghost.setdefault("parts", {})[t.get_id()] = [a, u, b]
            ex.st.assume(t == z3.Concat(a, u, b))
            return a, u, b
        a = self.subseq(ex, t, z3.IntVal(0), i)
        b = self.subseq(ex, t, i + 1, n)
        return a, z3.Unit(t[i]), b

    # ---- sequences ---------------------------------------------------------------
    def seq_of(self, ex, v):
        """-> (kind, term) for a sequence-valued thing read right now."""
        if isinstance(v, FieldRef):
            return "seqP", ex.st.th[f"{v.oid}.items"]
        if isinstance(v, DictSlot):
            return "seqV", z3.Select(ex.st.th[f"{v.oid}.d"], v.k)
        if isinstance(v, Z) and v.kind.startswith("seq"):
            return v.kind, v.t
        raise Untranslatable(f"not a sequence: {v!r}")

    def elem(self, kind, term):
        ek = ELEM_KIND[kind]
        return Z(ek, term)

    def py_index(self, ex, kind, s, idx, what="index"):
        """Python list indexing with negative indices; raises IndexError when out of range."""
        n = z3.Length(s)
        i = ex.as_int(idx)
        if i is None:
            raise Untranslatable(f"index {idx!r}")
        if ex.branch(z3.And(i >= 0, i < n), what + ">=0"):
            return self.elem(kind, s[i]), i
        if ex.branch(z3.And(i < 0, i >= -n), what + "<0"):
            return self.elem(kind, s[n + i]), n + i
        raise PyRaise(ExcV("IndexError"))

    def split_hint(self, ex, s, i):
        """s = s[:i] ++ [s[i]] ++ s[i+1:]   (0 <= i < len s)"""
        n = z3.Length(s)
        ex.st.assume(z3.Implies(z3.And(0 <= i, i < n),
                                z3.And(s == z3.Concat(sub(s, 0, i), z3.Unit(s[i]), sub(s, i + 1, n)),
                                       sub(s, 0, i + 1) == z3.Concat(sub(s, 0, i), z3.Unit(s[i])))))
        if self.qf_valid(ex, z3.And(0 <= i, i < n)) and self._parts(ex, s) is None:
            a, b = sub(s, 0, i), sub(s, i + 1, n)
            lens = ex.st.ghost.setdefault("lens", {})
            lens[a.get_id()] = i - 0
            lens[b.get_id()] = n - (i + 1)
            ex.st.assume(z3.And(z3.Length(a) == i, z3.Length(b) == n - (i + 1)))
            ex.st.ghost.setdefault("parts", {})[s.get_id()] = [a, z3.Unit(s[i]), b]

    def getitem(self, ex, recv, idx):
        if isinstance(recv, (FieldRef, DictSlot)) or (isinstance(recv, Z) and recv.kind.startswith("seq")):
            kind, s = self.seq_of(ex, recv)
            v, i = self.py_index(ex, kind, s, idx)
            self.split_hint(ex, s, i)
            return v
        if isinstance(recv, Z) and recv.kind == "pair":
            if isinstance(idx, Conc) and idx.v in (0, -2):
                return Z("K", fst(recv.t))
            if isinstance(idx, Conc) and idx.v in (1, -1):
                return Z("V", snd(recv.t))
            raise PyRaise(ExcV("IndexError"))
        if isinstance(recv, ObjV) and recv.role in ("md", "self") and not recv.info.get("view"):
            return self.call_method(ex, recv, "__getitem__", [idx], {})
        if isinstance(recv, TupV):
            i = idx.v if isinstance(idx, Conc) else None
            if i is None:
                raise Untranslatable("symbolic index into tuple")
            try:
                return recv.items[i]
            except IndexError:
                raise PyRaise(ExcV("IndexError"))
        raise Untranslatable(f"subscript {recv!r}[{idx!r}]")

    def setitem(self, ex, recv, idx, v):
        if isinstance(recv, FieldRef):
            s = ex.st.th[f"{recv.oid}.items"]
            n = z3.Length(s)
            _, i = self.py_index(ex, "seqP", s, idx, "store")
            p = self.as_pair(ex, v)
            self.split_hint(ex, s, i)
            ex.st.th[f"{recv.oid}.items"] = self.cat(ex, self.subseq(ex, s, z3.IntVal(0), i), z3.Unit(p),
                                                     self.subseq(ex, s, i + 1, n))
            return
        if isinstance(recv, ObjV) and recv.role in ("md", "self") and not recv.info.get("view"):
            self.call_method(ex, recv, "__setitem__", [idx, v], {})
            return
        raise Untranslatable(f"store {recv!r}[{idx!r}]")

    def local_setitem(self, ex, recv, idx, v):
        """L[i] = x on a list bound to a local name -> the updated list value"""
        s = recv.t
        n = z3.Length(s)
        _, i = self.py_index(ex, recv.kind, s, idx, "store")
        p = self.as_pair(ex, v) if recv.kind == "seqP" else v.t
        self.split_hint(ex, s, i)
        return Z(recv.kind, self.cat(ex, self.subseq(ex, s, z3.IntVal(0), i), z3.Unit(p), self.subseq(ex, s, i + 1, n)))

    def delitem(self, ex, recv, idx):
        if isinstance(recv, ObjV) and recv.role in ("md", "self") and not recv.info.get("view"):
            self.call_method(ex, recv, "__delitem__", [idx], {})
            return
        raise Untranslatable(f"del {recv!r}[...]")

    def clamp_slice(self, ex, n, v, default):
        """Python slice bound clamping, by case split (no ite inside sequence terms)."""
        if v is None:
            return default
        if ex.branch(v < 0, "slice<0"):
            return z3.IntVal(0) if ex.branch(n + v < 0, "slice<-n") else n + v
        return n if ex.branch(v > n, "slice>n") else v

    def getslice(self, ex, recv, lo, hi):
        kind, s = self.seq_of(ex, recv)
        n = z3.Length(s)
        l = self.clamp_slice(ex, n, ex.as_int(lo) if lo is not None else None, z3.IntVal(0))
        h = self.clamp_slice(ex, n, ex.as_int(hi) if hi is not None else None, n)
        if ex.branch(h > l, "slice-nonempty"):
            return Z(kind, self.subseq(ex, s, l, h))
        return Z(kind, z3.Empty(s.sort()))

    def setslice(self, ex, recv, lo, hi, v):
        if not isinstance(recv, FieldRef):
            raise Untranslatable("slice store on non-field")
        s = ex.st.th[f"{recv.oid}.items"]
        n = z3.Length(s)
        l = self.clamp_slice(ex, n, ex.as_int(lo) if lo is not None else None, z3.IntVal(0))
        h = self.clamp_slice(ex, n, ex.as_int(hi) if hi is not None else None, n)
        if not ex.branch(h >= l, "slice-order"):
            h = l
        kind, t = self.seq_of(ex, v)
        if kind != "seqP":
            raise Untranslatable("slice store of non-pairs")
        ex.st.th[f"{recv.oid}.items"] = self.cat(ex, self.subseq(ex, s, z3.IntVal(0), l), t, self.subseq(ex, s, h, n))

    def as_pair(self, ex, v):
        if isinstance(v, Z) and v.kind == "pair":
            return v.t
        if isinstance(v, TupV) and len(v.items) == 2:
            a, b = v.items
            if isinstance(a, Z) and a.kind == "K" and isinstance(b, Z) and b.kind == "V":
                return mk(a.t, b.t)
        raise Untranslatable(f"not a (key, value) pair: {v!r}")

    def unpack(self, ex, v, n):
        if isinstance(v, Z) and v.kind == "pair" and n == 2:
            return [Z("K", fst(v.t)), Z("V", snd(v.t))]
        if isinstance(v, Z) and v.kind == "item":
            raise Untranslatable("unpack of opaque item")
        raise Untranslatable(f"unpack {v!r}")

    def empty_list(self, ex):
        return Z("seq?", None)      # element kind fixed at first use

    def list_display(self, ex, items):
        first = items[0]
        if isinstance(first, Z) and first.kind in SEQ_OF_ELEM:
            return Z(SEQ_OF_ELEM[first.kind], z3.Concat(*[z3.Unit(x.t) for x in items]) if len(items) > 1
                     else z3.Unit(first.t))
        if isinstance(first, TupV):
            ps = [self.as_pair(ex, x) for x in items]
            return Z("seqP", z3.Concat(*[z3.Unit(p) for p in ps]) if len(ps) > 1 else z3.Unit(ps[0]))
        raise Untranslatable(f"list display of {first!r}")

    def truth(self, ex, v):
        if isinstance(v, (FieldRef, DictSlot)) or (isinstance(v, Z) and v.kind.startswith("seq") and v.t is not None):
            _, s = self.seq_of(ex, v)
            return z3.Length(s) > 0
        if isinstance(v, Z) and v.kind == "seq?":
            return False
        if isinstance(v, ObjV) and v.role in ("md", "self") and not v.info.get("view"):
            n = self.call_method(ex, v, "__len__", [], {})
            return n.t != 0
        if isinstance(v, Z) and v.kind == "kwargs":
            return z3.Length(v.t) > 0
        if isinstance(v, ObjV):
            return True
        return super().truth(ex, v)

    def is_none(self, ex, a):
        if isinstance(a, Conc):
            return a.v is None
        return False

    def is_(self, ex, a, b):
        if isinstance(a, Conc) and a.v is MARKER or isinstance(b, Conc) and b.v is MARKER:
            return isinstance(a, Conc) and isinstance(b, Conc) and a.v is b.v
        return super().is_(ex, a, b)

    def eq(self, ex, a, b):
        if isinstance(a, ObjV) and a.role in ("md", "self") and not a.info.get("view"):
            return self.call_method(ex, a, "__eq__", [b], {}).t
        if isinstance(a, TupV) and isinstance(b, Z) and b.kind == "pair":
            return self.as_pair(ex, a) == b.t
        if isinstance(b, TupV) and isinstance(a, Z) and a.kind == "pair":
            return self.as_pair(ex, b) == a.t
        return super().eq(ex, a, b)

    def contains(self, ex, container, item):
        if isinstance(container, ObjV) and container.role in ("md", "self") and not container.info.get("view"):
            # `key in multidict`: resolves to dict.__contains__ (ground MRO obligation)
            if isinstance(item, Z) and item.kind == "K":
                return z3.Select(ex.st.th[f"{container.info['oid']}.has"], item.t)
            raise Untranslatable("membership of non-key")
        if isinstance(container, (DictSlot,)) or (isinstance(container, Z) and container.kind.startswith("seq")):
            kind, s = self.seq_of(ex, container)
            return mem(kind, s, self.as_pair(ex, item) if kind == "seqP" else item.t)
        return super().contains(ex, container, item)

    def binop(self, ex, op, a, b):
        raise Untranslatable(f"binop {type(op).__name__}")

    # ---- iteration ---------------------------------------------------------------
    def register_iter(self, ex, it, pos=0):
        ex.st.ghost.setdefault("iters", {})[it.id] = it
        ex.st.th[f"{it.id}.pos"] = z3.IntVal(pos) if isinstance(pos, int) else pos
        return it

    def make_iter(self, ex, v):
        if isinstance(v, IterV):
            return v
        if isinstance(v, FieldRef):
            return self.register_iter(ex, IterV(("field", v.oid), "seqP"))
        if isinstance(v, ObjV) and v.role in ("md", "self") and not v.info.get("view"):
            r = self.call_method(ex, v, "__iter__", [], {})
            return r
        if isinstance(v, ObjV) and (v.role == "view" or v.info.get("view")):
            r = self.call_method(ex, v, "__iter__", [], {})
            return self.make_iter(ex, r)
        if isinstance(v, (DictSlot,)) or (isinstance(v, Z) and v.kind.startswith("seq")):
            kind, s = self.seq_of(ex, v)
            return self.register_iter(ex, IterV(("snap", s), kind))
        if isinstance(v, Z) and v.kind == "kwargs":
            raise Untranslatable("iteration over kwargs dict")
        raise Untranslatable(f"iter of {v!r}")

    def it_seq(self, ex, it):
        if it.src[0] == "field":
            return ex.st.th[f"{it.src[1]}.items"]
        return it.src[1]

    class Src:
        pass

    def source(self, ex, v):
        """-> object with len(), at(i), pos(), set_pos(i), elem value builder"""
        th = self
        if isinstance(v, EnumV):
            inner = self.source(ex, v.inner)

            class E:
                def len(s_):
                    return inner.len()

                def pos(s_):
                    return inner.pos()

                def set_pos(s_, i):
                    inner.set_pos(i)

                def at(s_, i):
                    return TupV([Z("int", i - v.offset), inner.at(i)])
            return E()
        if isinstance(v, ZipV):
            a, b = self.source(ex, v.a), self.source(ex, v.b)

            class Zp:
                def len(s_):
                    la, lb = a.len(), b.len()
                    return z3.If(la < lb, la, lb)

                def pos(s_):
                    return a.pos()

                def set_pos(s_, i):
                    a.set_pos(i)
                    b.set_pos(i)

                def at(s_, i):
                    return TupV([a.at(i), b.at(i)])
            return Zp()
        it = self.make_iter(ex, v)

        class S:
            def len(s_):
                return z3.Length(th.it_seq(ex, it))

            def pos(s_):
                return ex.st.th[f"{it.id}.pos"]

            def set_pos(s_, i):
                ex.st.th[f"{it.id}.pos"] = i

            def at(s_, i):
                s = th.it_seq(ex, it)
                th.split_hint(ex, s, i)
                return th.elem(it.kind, s[i])

            def seq(s_):
                return th.it_seq(ex, it)
        return S()

    def for_loop(self, ex, node, itv, spec, ordn):
        src = self.source(ex, itv)
        lname = f"loop#{ordn}"
        i0 = src.pos()
        # the sequence a plain loop runs over: a specification shared by all loops of a function ("*") reads it to decide
        # which part of the input this loop consumes (robust against merged / reordered loops)
        ex.st.ghost["loop.seq"] = src.seq() if hasattr(src, "seq") else None
        for nm, f in spec.inv(ex.env, ex.st, i0):
            ex.oblige(f"{ex.fv.qual}:{lname}:inv-established:{nm}", f)
        ex.havoc_loop(node, spec)
        i = fresh("i", I)
        ex.st.assume(i >= i0)
        ex.st.assume(i <= src.len())
        src.set_pos(i)
        for nm, f in spec.inv(ex.env, ex.st, i):
            ex.st.assume(f)
            self.learn(ex, f)
        havoced = ex.st.ghost.get("havoced", set())
        for oid in havoced:
            if f"{oid}.items" in ex.st.th and getattr(spec, "wf", True):
                ex.st.assume(wf_lazy(Snap(dict(ex.st.th), oid)))
        if ex.branch(i < src.len(), f"for@{node.lineno}"):
            el = src.at(i)
            src.set_pos(i + 1)
            ex.assign(node.target, el)
            if getattr(spec, "hints", None):
                for h in spec.hints(ex.env, ex.st, i):
                    ex.st.assume(h)
            ex.st.ghost[lname + ".i"] = i
            try:
                ex.stmts(node.body)
            except _Break:
                ex.st.ghost[lname + ".break_i"] = i
                return
            except _Continue:
                pass
            for nm, f in spec.inv(ex.env, ex.st, src.pos()):
                ex.oblige(f"{ex.fv.qual}:{lname}:inv-preserved:{nm}", f)
            if getattr(spec, "wf", True):
                for oid in havoced:
                    if f"{oid}.items" in ex.st.th:
                        k0 = fresh("k0", K)
                        ex.oblige(f"{ex.fv.qual}:{lname}:inv-preserved:WF({oid})", WF(Snap(ex.st.th, oid), k0))
            raise PathEnd()
        ex.st.ghost[lname + ".exit_i"] = i
        ex.stmts(node.orelse)

    def comprehension(self, ex, node):
        if len(node.generators) != 1 or node.generators[0].is_async:
            raise Untranslatable("nested comprehension")
        g = node.generators[0]
        itv = ex.expr(g.iter)
        if isinstance(itv, EnumV):
            return self.enum_comprehension(ex, node, g, itv)
        if isinstance(itv, ZipV):
            return self.zip_comprehension(ex, node, g, itv)
        # the source sequence consumed by the comprehension
        if isinstance(itv, IterV):
            s_all = self.it_seq(ex, itv)
            pos = ex.st.th[f"{itv.id}.pos"]
            n = z3.Length(s_all)
            if ex.branch(pos < n, "iter-rest"):
                seq = self.subseq(ex, s_all, pos, n)
            else:
                seq = z3.Empty(s_all.sort())
            ex.st.th[f"{itv.id}.pos"] = n
            kind = itv.kind
        else:
            it = self.make_iter(ex, itv)
            seq = self.it_seq(ex, it)
            kind = it.kind
        ek = ELEM_KIND[kind]
        x = fresh("x", SORT_OF_KIND[ek])
        saved = dict(ex.env)
        pc_len = len(ex.st.pc)
        try:
            ex.assign(g.target, Z(ek, x))
            cond = z3.BoolVal(True)
            for c in g.ifs:
                t = ex.truth(ex.expr(c))
                cond = z3.And(cond, t if not isinstance(t, bool) else z3.BoolVal(t))
            elt = ex.expr(node.elt)
        finally:
            ex.env = saved
        if len(ex.st.pc) != pc_len:
            raise Untranslatable("comprehension body forks")
        if isinstance(node, ast.GeneratorExp) and self._as_bool(elt) is not None:
            # a generator of truth values: only any()/all() consume it
            return ObjV("genbool", info={"kind": kind, "seq": seq, "x": x, "t": z3.And(cond, self._as_bool(elt)),
                                         "cond": cond, "elt": self._as_bool(elt)})
        return self.homomorphism(ex, kind, seq, x, cond, elt)

    @staticmethod
    def _as_bool(v):
        if isinstance(v, Conc) and isinstance(v.v, bool):
            return z3.BoolVal(v.v)
        if isinstance(v, Z) and v.kind == "bool":
            return v.t
        return None

    def enum_comprehension(self, ex, node, g, itv):
        """[<idx> for <idx>, <k> in enumerate(<keys of L>) if <k> == key]  ->  pos(L, key, 0)   (only a fresh enumerate)"""
        it = itv.inner
        pos = ex.st.th[f"{it.id}.pos"]
        if not (z3.is_int_value(pos) and pos.as_long() == 0 and z3.is_int_value(z3.simplify(itv.offset + 0))
                and z3.simplify(itv.offset + 0).as_long() == 0):
            raise Untranslatable("comprehension over a partly consumed enumerate")
        seq = self.it_seq(ex, it)
        ex.st.th[f"{it.id}.pos"] = z3.Length(seq)
        ek = ELEM_KIND[it.kind]
        x = fresh("x", SORT_OF_KIND[ek])
        j = fresh("j", I)
        saved = dict(ex.env)
        pc_len = len(ex.st.pc)
        try:
            ex.assign(g.target, TupV([Z("int", j), Z(ek, x)]))
            cond = z3.BoolVal(True)
            for c in g.ifs:
                t = ex.truth(ex.expr(c))
                cond = z3.And(cond, t if not isinstance(t, bool) else z3.BoolVal(t))
            elt = ex.expr(node.elt)
        finally:
            ex.env = saved
        if len(ex.st.pc) != pc_len:
            raise Untranslatable("comprehension body forks")
        if it.kind == "seqK" and isinstance(elt, Z) and elt.kind == "int" and not isinstance(node, ast.GeneratorExp):
            # the list L whose keys are enumerated: syntactically, or a list field the path condition equates it with
            Ls = [seq.arg(0)] if z3.is_app(seq) and seq.decl().eq(keysf(z3.Empty(SeqP)).decl()) else [
                t for nm, t in ex.st.th.items() if nm.endswith(".items") and z3.is_expr(t) and t.sort().eq(SeqP)
                and self.qf_valid(ex, seq == keysf(t))]
            for L in Ls[:1]:
                for k in [v for v in ex.env.values() if isinstance(v, Z) and v.kind == "K"]:
                    if self.qf_valid(ex, z3.And(cond == (x == k.t), elt.t == j)):
                        return Z("seqI", posf(L, k.t, z3.IntVal(0)))
        raise Untranslatable("comprehension over enumerate(): no catalogue entry")

    def zip_comprehension(self, ex, node, g, itv):
        """a generator of truth values over zip(A, B) of two fresh iterators of one kind (consumed by any()/all())"""
        a, b = itv.a, itv.b
        if a.kind != b.kind or not isinstance(node, ast.GeneratorExp):
            raise Untranslatable("comprehension over zip(): no catalogue entry")
        for it in (a, b):
            pos = ex.st.th[f"{it.id}.pos"]
            if not (z3.is_int_value(pos) and pos.as_long() == 0):
                raise Untranslatable("comprehension over a partly consumed zip")
        sa, sb = self.it_seq(ex, a), self.it_seq(ex, b)
        la, lb = z3.Length(sa), z3.Length(sb)
        m = z3.If(la < lb, la, lb)
        ex.st.th[f"{a.id}.pos"] = m
        ex.st.th[f"{b.id}.pos"] = z3.If(la < lb, m + 1, m) if False else m
        ek = ELEM_KIND[a.kind]
        x, y = fresh("x", SORT_OF_KIND[ek]), fresh("y", SORT_OF_KIND[ek])
        saved = dict(ex.env)
        pc_len = len(ex.st.pc)
        try:
            ex.assign(g.target, TupV([Z(ek, x), Z(ek, y)]))
            cond = z3.BoolVal(True)
            for c in g.ifs:
                t = ex.truth(ex.expr(c))
                cond = z3.And(cond, t if not isinstance(t, bool) else z3.BoolVal(t))
            elt = self._as_bool(self._pure_truth(ex, node.elt))
        finally:
            ex.env = saved
        if len(ex.st.pc) != pc_len or elt is None:
            raise Untranslatable("comprehension body forks")
        return ObjV("genbool", info={"kind": "zip", "seq": (sa, sb, m), "x": (x, y), "t": z3.And(cond, elt), "cond": cond, "elt": elt})

    def _pure_truth(self, ex, node):
        """truth value of an expression as one formula: and / or / not are connectives (no path split)"""
        if isinstance(node, ast.BoolOp):
            parts = [self._as_bool(self._pure_truth(ex, v)) for v in node.values]
            if any(p is None for p in parts):
                raise Untranslatable("non-boolean operand")
            return Z("bool", z3.And(*parts) if isinstance(node.op, ast.And) else z3.Or(*parts))
        if isinstance(node, ast.UnaryOp) and isinstance(node.op, ast.Not):
            p = self._as_bool(self._pure_truth(ex, node.operand))
            if p is None:
                raise Untranslatable("non-boolean operand")
            return Z("bool", z3.Not(p))
        t = ex.truth(ex.expr(node))
        return Conc(t) if isinstance(t, bool) else Z("bool", t)

    def _gen_membership(self, ex, gb, t):
        """the truth of  any(<t> for x in seq)  as a membership term, or None"""
        kind, seq, x = gb["kind"], gb["seq"], gb["x"]
        if kind == "zip":
            # any(x != y for x, y in zip(A, B))  ==  the common-length prefixes differ
            (sa, sb, m), (xa, xb) = seq, x
            if self.qf_valid(ex, t == (xa != xb)):
                return sub(sa, 0, m) != sub(sb, 0, m)
            return None
        env = [v for v in ex.env.values() if isinstance(v, Z)]
        cands = []
        for v in env:
            if kind == "seqP" and v.kind == "V":
                cands.append((snd(x) == v.t, memV(valsf(seq), v.t)))
            if kind == "seqP" and v.kind == "K":
                cands.append((fst(x) == v.t, memK(keysf(seq), v.t)))
            if kind == "seqP" and v.kind == "pair":
                cands.append((x == v.t, memP(seq, v.t)))
            if kind == "seqV" and v.kind == "V":
                cands.append((x == v.t, memV(seq, v.t)))
            if kind == "seqK" and v.kind == "K":
                cands.append((x == v.t, memK(seq, v.t)))
        for shape, term in cands:
            if self.qf_valid(ex, t == shape):
                return term
        return None

    def b_any(self, ex, args, kwargs):
        if len(args) == 1 and isinstance(args[0], ObjV) and args[0].role == "genbool":
            m = self._gen_membership(ex, args[0].info, args[0].info["t"])
            if m is not None:
                return Z("bool", m)
        raise Untranslatable("any(...): no catalogue entry")

    def b_all(self, ex, args, kwargs):
        if len(args) == 1 and isinstance(args[0], ObjV) and args[0].role == "genbool":
            gb = args[0].info
            # all(e for x in s if c)  ==  not any(c and not e for x in s)
            m = self._gen_membership(ex, gb, z3.And(gb["cond"], z3.Not(gb["elt"])))
            if m is not None:
                return Z("bool", z3.Not(m))
        raise Untranslatable("all(...): no catalogue entry")

    def homomorphism(self, ex, kind, seq, x, cond, elt):
        pr = ex.fv.prover

        def valid(f):
            # quantifier-free over pairs/keys/values: decided without the sequence axioms
            return self.qf_valid(ex, f)

        if isinstance(elt, TupV):
            try:
                elt = Z("pair", self.as_pair(ex, elt))
            except Untranslatable:
                pass
        if not isinstance(elt, Z):
            raise Untranslatable(f"comprehension element {elt!r}")
        ks = [v for v in ex.env.values() if isinstance(v, Z) and v.kind == "K"]
        if kind == "seqP":
            if elt.kind == "pair":
                if valid(z3.And(cond, elt.t == x)):
                    return Z("seqP", seq)
                for k in ks:
                    if valid(z3.And(cond == (fst(x) != k.t), elt.t == x)):
                        return Z("seqP", dropk(seq, k.t))
            if elt.kind == "V":
                if valid(z3.And(cond, elt.t == snd(x))):
                    return Z("seqV", valsf(seq))
                for k in ks:
                    if valid(z3.And(cond == (fst(x) == k.t), elt.t == snd(x))):
                        return Z("seqV", proj(seq, k.t))
            if elt.kind == "K":
                if valid(z3.And(cond, elt.t == fst(x))):
                    return Z("seqK", keysf(seq))
        else:
            if valid(z3.And(cond, elt.t == x)):
                return Z(kind, seq)
        # no catalogue entry: a fresh homomorphism (sound, says nothing more)
        out_kind = SEQ_OF_ELEM.get(elt.kind)
        if out_kind is None:
            raise Untranslatable("comprehension element kind")
        H = z3.Function(f"H!{id(x)}", seq.sort(), SORT_OF_KIND[out_kind])
        a, b = z3.Consts("ha hb", seq.sort())
        ex.st.assume(H(z3.Empty(seq.sort())) == z3.Empty(SORT_OF_KIND[out_kind]))
        ex.st.assume(z3.ForAll([x], H(z3.Unit(x)) == z3.If(cond, z3.Unit(elt.t), z3.Empty(SORT_OF_KIND[out_kind]))))
        ex.st.assume(z3.ForAll([a, b], H(z3.Concat(a, b)) == z3.Concat(H(a), H(b))))
        return Z(out_kind, H(seq))

    def yield_(self, ex, node):
        raise Untranslatable("yield outside the recognised generator form")

    # ---- calls -----------------------------------------------------------------
    def call(self, ex, fv, args, kwargs, node):
        if isinstance(fv, BoundM):
            recv = fv.recv
            # local list mutation through a name
            if isinstance(recv, Z) and (recv.kind.startswith("seq")) and fv.name in ("append",):
                if node is not None and isinstance(node.func.value, ast.Name):
                    nm = node.func.value.id
                    x = args[0]
                    if recv.kind == "seq?":
                        if isinstance(x, TupV):
                            x = Z("pair", self.as_pair(ex, x))
                        ex.env[nm] = Z(SEQ_OF_ELEM[x.kind], z3.Unit(x.t))
                    else:
                        ex.env[nm] = Z(recv.kind, z3.Concat(recv.t, z3.Unit(x.t)))
                    return Conc(None)
                raise Untranslatable("append on an unnamed list")
        if isinstance(fv, FuncV) and self.program and fv.name in self.program.classes:
            return self.construct(ex, fv.name, args, kwargs)
        if isinstance(fv, ClassV):
            return self.construct(ex, fv.name, args, kwargs)
        return super().call(ex, fv, args, kwargs, node)

    def construct(self, ex, cname, args, kwargs):
        if cname in ("KeysView", "ItemsView", "ValuesView"):
            (m,) = args
            return ObjV("view", cls=cname, info={"of": m, "oid": m.info["oid"], "view": True, "mapping": m})
        # a multi-dict class: allocate, run __init__ by contract
        IterV.n += 1
        oid = f"new{IterV.n}"
        ex.st.th[f"{oid}.items"] = fresh(f"{oid}_items", SeqP)
        ex.st.th[f"{oid}.has"] = z3.K(K, z3.BoolVal(False))
        ex.st.th[f"{oid}.d"] = fresh(f"{oid}_d", z3.ArraySort(K, SeqV))
        o = ObjV("md", cls=cname, info={"oid": oid, "fresh": True})
        c = self.lookup_method_contract(cname, "__init__")
        if c is None:
            raise Untranslatable(f"{cname}.__init__ has no contract")
        self.call_contract(ex, c, o, args, kwargs, f"{cname}.__init__")
        return o

    def call_method(self, ex, recv, name, args, kwargs):
        th = ex.st.th
        if isinstance(recv, FieldRef):
            oid = recv.oid
            s = th[f"{oid}.items"]
            n = z3.Length(s)
            if name == "append":
                th[f"{oid}.items"] = self.cat(ex, s, z3.Unit(self.as_pair(ex, args[0])))
                return Conc(None)
            if name == "pop" and not args:
                if ex.branch(n > 0, "list.pop"):
                    self.split_hint(ex, s, n - 1)
                    th[f"{oid}.items"] = self.subseq(ex, s, z3.IntVal(0), n - 1)
                    return Z("pair", s[n - 1])
                raise PyRaise(ExcV("IndexError"))
            if name == "insert":
                i = ex.as_int(args[0])
                p = self.as_pair(ex, args[1])
                if ex.branch(i < 0, "insert<0"):
                    j = z3.IntVal(0) if ex.branch(n + i < 0, "insert<-n") else n + i
                else:
                    j = n if ex.branch(i > n, "insert>n") else i
                a_, b_ = self.subseq(ex, s, z3.IntVal(0), j), self.subseq(ex, s, j, n)
                ex.st.assume(s == z3.Concat(a_, b_))
                th[f"{oid}.items"] = self.cat(ex, a_, z3.Unit(p), b_)
                return Conc(None)
            raise Untranslatable(f"list.{name} on the private list")
        if isinstance(recv, DictSlot):
            d = th[f"{recv.oid}.d"]
            cur = z3.Select(d, recv.k)
            if name == "append":
                th[f"{recv.oid}.d"] = z3.Store(d, recv.k, self.cat(ex, cur, z3.Unit(args[0].t)))
                return Conc(None)
            if name == "pop" and not args:
                n = z3.Length(cur)
                if ex.branch(n > 0, "slot.pop"):
                    self.split_hint(ex, cur, n - 1)
                    th[f"{recv.oid}.d"] = z3.Store(d, recv.k, self.subseq(ex, cur, z3.IntVal(0), n - 1))
                    return Z("V", cur[n - 1])
                raise PyRaise(ExcV("IndexError"))
            raise Untranslatable(f"list.{name} on a stored value list")
        if isinstance(recv, Z) and recv.kind.startswith("seq") and recv.t is not None:
            if name == "index":
                x = args[0]
                xt = self.as_pair(ex, x) if recv.kind == "seqP" else x.t
                if ex.branch(mem(recv.kind, recv.t, xt), "list.index"):
                    r = fresh("idx", I)
                    ex.st.assume(first_at(recv.kind, recv.t, xt, r))
                    return Z("int", r)
                raise PyRaise(ExcV("ValueError"))
            if name == "items" and recv.kind == "seqP":
                return recv
        if isinstance(recv, Z) and recv.kind == "kwargs" and name == "items":
            return Z("seqP", recv.t)
        if isinstance(recv, Conc) and isinstance(recv.v, dict) and name == "items":
            if not recv.v:
                return TupV([])
        if isinstance(recv, ObjV) and recv.role in ("md", "self", "view", "super"):
            cls = recv.cls
            after = recv.info.get("after") if recv.role == "super" else None
            c = self.lookup_method_contract(cls, name, after)
            if c is None:
                raise Untranslatable(f"callee {cls}.{name} has no contract")
            obj = recv.info.get("obj", recv) if recv.role == "super" else recv
            return self.call_contract(ex, c, obj, args, kwargs, f"{cls}.{name}")
        return super().call_method(ex, recv, name, args, kwargs)

    def len_(self, ex, v):
        if isinstance(v, (FieldRef, DictSlot)) or (isinstance(v, Z) and v.kind.startswith("seq")):
            if isinstance(v, Z) and v.t is None:
                return Conc(0)
            _, s = self.seq_of(ex, v)
            return Z("int", z3.Length(s))
        if isinstance(v, ObjV):
            return self.call_method(ex, v, "__len__", [], {})
        if isinstance(v, Z) and v.kind == "kwargs":
            return Z("int", z3.Length(v.t))
        raise Untranslatable(f"len of {v!r}")

    def isinstance_(self, ex, v, names):
        if isinstance(v, Z) and v.kind == "K":
            # keys are not ints or slices in the key case of __getitem__
            if set(names) <= {"int", "slice"}:
                return Conc(False)
        if isinstance(v, Z) and v.kind == "int":
            return Conc("int" in names)
        if isinstance(v, ObjV) and v.role in ("md", "self"):
            if any(n.endswith("Mapping") for n in names):
                return Conc(True)
            if self.program is not None and v.cls in self.program.classes and any(n in self.program.mro(v.cls) for n in names):
                return Conc(True)
            if names == ["type(self)"] or names == ["<type-of-self>"]:
                return Z("bool", ex.st.th.get(f"{v.info['oid']}.sametype", z3.BoolVal(True)))
        if (isinstance(v, Z) and v.kind == "seqP") or isinstance(v, TupV):
            if all(n.endswith("Mapping") for n in names):
                return Conc(False)
        if isinstance(v, ObjV) and v.role == "notmd":
            return Conc(False)
        return super().isinstance_(ex, v, names)

    # builtins -------------------------------------------------------------------
    def b_iter(self, ex, args, kwargs):
        return self.make_iter(ex, args[0])

    def b_enumerate(self, ex, args, kwargs):
        it = args[0]
        if not isinstance(it, (IterV,)):
            it = self.make_iter(ex, it)
        return EnumV(it, ex.st.th[f"{it.id}.pos"])

    def b_zip(self, ex, args, kwargs):
        a, b = args
        return ZipV(self.make_iter(ex, a), self.make_iter(ex, b))

    def b_list(self, ex, args, kwargs):
        if not args:
            return Z("seq?", None)
        v = args[0]
        if isinstance(v, (DictSlot, FieldRef)) or (isinstance(v, Z) and v.kind.startswith("seq")):
            kind, s = self.seq_of(ex, v)
            return Z(kind, s)            # a fresh copy
        if isinstance(v, ObjV):
            it = self.make_iter(ex, v)
            return Z(it.kind, self.it_seq(ex, it))
        raise Untranslatable(f"list({v!r})")

    def b_max(self, ex, args, kwargs):
        a, b = args
        ia, ib = ex.as_int(a), ex.as_int(b)
        if ia is None or ib is None:
            raise Untranslatable("max of non-ints")
        return a if ex.branch(ia >= ib, "max") else b

    def b_type(self, ex, args, kwargs):
        v = args[0]
        if isinstance(v, ObjV):
            return ClassV(v.cls, of=v)
        raise Untranslatable("type()")

    def b_isinstance(self, ex, args, kwargs):
        v, t = args
        if isinstance(t, ClassV):
            if isinstance(v, ObjV) and v.role in ("md", "self"):
                return Z("bool", ex.st.th.get(f"{v.info['oid']}.sametype", z3.BoolVal(True)))
            return Conc(False)
        return super().b_isinstance(ex, args, kwargs)

    def b_hasattr(self, ex, args, kwargs):
        v, nm = args
        if isinstance(v, ObjV) and v.role in ("md", "self"):
            return Conc(True)
        if (isinstance(v, Z) and v.kind == "seqP") or isinstance(v, TupV):
            return Conc(False)
        raise Untranslatable("hasattr")

    def b_dict_contains(self, ex, args, kwargs):
        o, k = args
        return Z("bool", z3.Select(ex.st.th[f"{o.info['oid']}.has"], k.t))

    def b_dict_getitem(self, ex, args, kwargs):
        o, k = args
        oid = o.info["oid"]
        if ex.branch(z3.Select(ex.st.th[f"{oid}.has"], k.t), "dict_getitem"):
            return DictSlot(oid, k.t)
        raise PyRaise(ExcV("KeyError"))

    def b_dict_setitem(self, ex, args, kwargs):
        o, k, v = args
        oid = o.info["oid"]
        if isinstance(v, Z) and v.kind == "seqV":
            t = v.t
        elif isinstance(v, Z) and v.kind == "seq?":
            t = EMPTY_V
        else:
            raise Untranslatable(f"dict storage bound to a non-fresh value list {v!r} (ownership)")
        ex.st.th[f"{oid}.has"] = z3.Store(ex.st.th[f"{oid}.has"], k.t, z3.BoolVal(True))
        ex.st.th[f"{oid}.d"] = z3.Store(ex.st.th[f"{oid}.d"], k.t, t)
        return Conc(None)

    def b_dict_delitem(self, ex, args, kwargs):
        o, k = args
        oid = o.info["oid"]
        if ex.branch(z3.Select(ex.st.th[f"{oid}.has"], k.t), "dict_delitem"):
            ex.st.th[f"{oid}.has"] = z3.Store(ex.st.th[f"{oid}.has"], k.t, z3.BoolVal(False))
            return Conc(None)
        raise PyRaise(ExcV("KeyError"))

    def b_dict_clear(self, ex, args, kwargs):
        (o,) = args
        ex.st.th[f"{o.info['oid']}.has"] = z3.K(K, z3.BoolVal(False))
        return Conc(None)

    def b__insert_arg_helper(self, ex, args, kwargs):
        c = self.lookup_function_contract("_insert_arg_helper")
        return self.call_contract(ex, c, None, args, kwargs, "_insert_arg_helper")
