"""T_dec: theory for pvl/decoder.py and pvl/token.py.

The acceptance languages of the builtins the decoders delegate to are uninterpreted predicates
of the token text (int_ok, real_ok, matches(re, .), date_ok / time_ok / dt_ok for the strptime
format families); what is *proved* is how the decoder methods combine them: which exceptions
can leave each method (raises closure for C06), that the cascade of decode_simple_value is a
classification with a fixed priority (C17), and that every Token predicate is exactly 'the
corresponding decoder call returns' (C17).  The languages themselves are handled by the regex
back end (vf/pyvc/regexlang.py)."""
import ast

import z3

from .core import (Conc, Z, TupV, ExcV, ObjV, BoundM, FuncV, OPAQUE_STR, OpaqueStr, PyRaise,
                   Untranslatable, PathEnd, fresh, _Break, _Continue)
from .objtheory import ObjTheory, sval, S, I, B, casefold, lit, strlen, prefixof, suffixof
from .core import LoopSpec

int_ok = z3.Function("int10_accepts", S, B)
intval = z3.Function("int10_value", S, I)
real_ok = z3.Function("real_cls_accepts", S, B)
date_ok = z3.Function("strptime_date_formats_accept", S, B)
time_ok = z3.Function("strptime_time_formats_accept", S, B)
dt_ok = z3.Function("strptime_datetime_formats_accept", S, B)
matches = z3.Function("re_fullmatch", S, S, B)           # (pattern constant, text)
has_sub = z3.Function("str_contains", S, S, B)           # (text, needle)
inner = z3.Function("str_strip_first_and_last", S, S)    # value[1:-1]
ident_ok = z3.Function("is_identifier", S, B)
GC = {}


def g(name):
    if name not in GC:
        GC[name] = z3.Const("grammar_" + name, S)
    return GC[name]


class DecTheory(ObjTheory):
    name = "T_dec"
    feasible_axioms = False

    def axioms(self):
        return super().axioms()

    def fresh_of_kind(self, kind, nm):
        if kind == "tok":
            return Z("str", fresh(nm, S))
        if kind == "val":
            return ObjV("val")
        return super().fresh_of_kind(kind, nm)

    def fresh_result(self, ex, res, label):
        if res == "any":
            return ObjV("val")
        if res == "real":
            return ObjV("real", info={"text": None})
        return super().fresh_result(ex, res, label)

    def result_conforms(self, ex, res_kind, v):
        if res_kind == "any":
            return True
        if res_kind == "real":
            return isinstance(v, ObjV) and v.role == "real"
        if res_kind == "int":
            if isinstance(v, ObjV):
                return False
        return super().result_conforms(ex, res_kind, v)

    def make_self(self, ex, fv):
        if fv.cls_name == "Token":
            # a Token IS its text
            o = ObjV("self", cls="Token", info={"oid": "self", "text": fresh("token_text", S)})
            return o
        return super().make_self(ex, fv)

    def global_name(self, ex, name):
        if name in ("int", "float", "str", "len", "repeat", "chain", "datetime", "timezone", "timedelta", "re",
                    "for_try_except", "InvalidOperation", "QuantityError", "all", "any", "reversed", "hasattr", "round", "warn",
                    "isinstance", "super", "Token"):
            return FuncV(name)
        return super().global_name(ex, name)

    # ---- fields ------------------------------------------------------------------
    def initial_field(self, ex, recv, attr):
        if recv.role == "self" and recv.cls == "Token":
            if attr in ("grammar", "decoder"):
                return ObjV(attr, info={"oid": attr})
        if recv.role == "self":
            if attr in ("grammar",):
                return ObjV("grammar", info={"oid": "grammar"})
            if attr in ("real_cls", "quantity_cls"):
                return FuncV("field:" + attr)
        if recv.role == "grammar":
            if attr in ("none_keyword", "true_keyword", "false_keyword"):
                return Z("str", g(attr))
            if attr == "quotes":
                return TupV([Z("str", g("quote1")), Z("str", g("quote2"))])
            if attr in ("binary_re", "octal_re", "hex_re", "nondecimal_re", "leap_second_Ymd_re", "leap_second_Yj_re"):
                return ObjV("regex", info={"pat": g(attr), "maybe_none": attr.startswith("leap")})
            if attr in ("comments", "whitespace", "reserved_characters", "end_statements", "reserved_keywords",
                        "date_formats", "time_formats", "datetime_formats", "format_effectors", "spacing_characters",
                        "delimiters"):
                return ObjV("opaque-coll", info={"name": attr})
            if attr in ("aggregation_keywords",):
                return ObjV("opaque-coll", info={"name": attr})
            if attr == "default_timezone":
                return ObjV("tz-or-none")
            if attr == "_M_frag":
                return OPAQUE_STR
        return super().initial_field(ex, recv, attr)

    def selftext(self, recv):
        if isinstance(recv, ObjV) and recv.role == "self" and recv.cls == "Token":
            return recv.info["text"]
        return None

    def getattr(self, ex, recv, attr):
        if isinstance(recv, ObjV) and recv.role in ("dtval", "val") and attr in ("microsecond", "second", "minute", "hour"):
            return Z("int", fresh(attr, I))
        if isinstance(recv, ObjV) and recv.role in ("grammar",):
            v = self.initial_field(ex, recv, attr)
            if v is not None:
                key = f"grammar.{attr}"
                if key not in ex.st.th:
                    ex.st.th[key] = v
                return ex.st.th[key]
            return BoundM(recv, attr)
        if isinstance(recv, ObjV) and recv.role in ("decoder", "regex", "match", "opaque-coll", "dtval", "val", "tz-or-none", "dict"):
            return BoundM(recv, attr)
        if isinstance(recv, FuncV) and recv.name in ("datetime", "timezone", "re"):
            return FuncV(recv.name + "." + attr)
        return super().getattr(ex, recv, attr)

    # ---- values ------------------------------------------------------------------
    def sv(self, v):
        t = self.selftext(v) if isinstance(v, ObjV) else None
        return t if t is not None else sval(v)

    def truth(self, ex, v):
        if isinstance(v, ObjV) and v.role in ("val", "dtval", "match"):
            return True
        return super().truth(ex, v)

    def is_none(self, ex, a):
        if isinstance(a, ObjV) and a.role == "match-or-none":
            return z3.Not(a.info["ok"])
        if isinstance(a, ObjV) and a.role == "regex" and a.info.get("maybe_none"):
            # a grammar attribute that may be None (ODL has no leap-second patterns): one global constant per pattern
            return z3.Const(str(a.info["pat"]) + "_is_none", B)
        if isinstance(a, ObjV) and a.role == "tz-or-none":
            return z3.Const("grammar_default_timezone_is_none", B)
        if isinstance(a, ObjV) and a.role == "offset-or-none":
            return a.info["none"]
        return super().is_none(ex, a)

    def eq(self, ex, a, b):
        sa, sb = self.sv(a), self.sv(b)
        if sa is not None and sb is not None:
            return sa == sb
        return super().eq(ex, a, b)

    def contains(self, ex, container, item):
        sc, si = self.sv(container), self.sv(item)
        if sc is not None and si is not None:
            return has_sub(sc, si)
        if isinstance(container, ObjV) and container.role in ("opaque-coll", "dict"):
            return fresh("in_collection", B)
        return super().contains(ex, container, item)

    def getslice(self, ex, recv, lo, hi):
        s = self.sv(recv)
        if s is not None and isinstance(lo, Conc) and lo.v == 1 and isinstance(hi, Conc) and hi.v == -1:
            return Z("str", inner(s))
        return super().getslice(ex, recv, lo, hi)

    def getitem(self, ex, recv, idx):
        if isinstance(recv, ObjV) and recv.role == "dict":
            return Z("str", fresh("group", S))
        if isinstance(recv, ObjV) and recv.role == "opaque-coll":
            return ObjV("opaque-coll")
        s = self.sv(recv)
        if s is not None:
            return Z("str", fresh("char", S))
        return super().getitem(ex, recv, idx)

    def binop(self, ex, op, a, b):
        if isinstance(a, ObjV) or isinstance(b, ObjV):
            return ObjV("val")
        if (isinstance(a, Z) and a.kind == "int") or (isinstance(b, Z) and b.kind == "int"):
            return Z("int", fresh("arith", I))
        return super().binop(ex, op, a, b)

    def b_isinstance(self, ex, args, kwargs):
        return Z("bool", fresh("isinstance", B))

    def b_len(self, ex, args, kwargs):
        t = self.sv(args[0])
        if t is not None and not isinstance(args[0], Conc):
            return Z("int", strlen(t))
        return super().b_len(ex, args, kwargs)

    def b_str(self, ex, args, kwargs):
        t = self.sv(args[0])
        if t is not None:
            return Z("str", t)
        if isinstance(args[0], ObjV):
            return OPAQUE_STR
        return super().b_str(ex, args, kwargs)

    # ---- loops over opaque collections ----------------------------------------------
    ITEM = {"comments": "pair", "aggregation_keywords.items": "pair"}

    def opaque_item(self, ex, coll):
        nm = coll.info.get("name", "") if isinstance(coll, ObjV) else ""
        if nm in ("comments",):
            return TupV([Z("str", fresh("c_open", S)), Z("str", fresh("c_close", S))])
        return Z("str", fresh("item", S))

    def for_loop(self, ex, node, itv, spec, ordn):
        """Iteration over a collection known only as 'some finite collection of strings' (grammar
        tables): cut after one arbitrary iteration; the body's exceptional exits and breaks are
        followed, a normal end of the body is covered by the havocked loop head."""
        if not (isinstance(itv, ObjV) and itv.role == "opaque-coll"):
            raise Untranslatable(f"for loop over {itv!r}")
        q = ex.fv.qual
        lname = f"loop#{ordn}"
        for nm, f in spec.inv(ex.env, ex.st, None):
            ex.oblige(f"{q}:{lname}:inv-established:{nm}", f)
        ex.havoc_loop(node, spec)
        for nm, f in spec.inv(ex.env, ex.st, None):
            ex.st.assume(f)
        if ex.path.choose(2, f"for@{node.lineno}") == 0:
            ex.assign(node.target, self.opaque_item(ex, itv))
            try:
                ex.stmts(node.body)
            except _Break:
                return
            except _Continue:
                pass
            for nm, f in spec.inv(ex.env, ex.st, None):
                ex.oblige(f"{q}:{lname}:inv-preserved:{nm}", f)
            raise PathEnd()
        ex.stmts(node.orelse)

    # ---- calls -----------------------------------------------------------------------
    def call(self, ex, fv, args, kwargs, node):
        if isinstance(fv, FuncV):
            n = fv.name
            if n == "int":
                t = self.sv(args[0])
                if t is None:
                    # int(<regex group>, base=...) etc.: may fail
                    if ex.path.choose(2, "int()") == 0:
                        return Z("int", fresh("intres", I))
                    raise PyRaise(ExcV("ValueError"))
                if ex.branch(int_ok(t), "int(value)"):
                    return Z("int", intval(t))
                raise PyRaise(ExcV("ValueError"))
            if n == "field:real_cls":
                t = self.sv(args[0])
                c = ex.path.choose(3, "real_cls")
                if c == 0:
                    ex.st.assume(real_ok(t))
                    return ObjV("real", info={"text": t})
                ex.st.assume(z3.Not(real_ok(t)))
                raise PyRaise(ExcV("ValueError" if c == 1 else "InvalidOperation"))
            if n == "field:quantity_cls":
                if ex.path.choose(2, "quantity_cls") == 0:
                    return ObjV("val")
                raise PyRaise(ExcV("ValueError"))
            if n == "for_try_except" and len(args) == 3 and type(args[1]).__name__ == "LambdaV" and isinstance(args[2], TupV) \
                    and isinstance(args[0], FuncV):
                # the helper applied to a written-out function over a tuple display: its contract (the first application that
                # does not raise the given exception class, else that exception) element by element
                from .core import exc_isa
                for x in args[2].items:
                    try:
                        return ex.call_lambda(args[1], [x])
                    except PyRaise as pr:
                        if not exc_isa(pr.exc.cls, args[0].name):
                            raise
                raise PyRaise(ExcV(args[0].name))
            if n == "for_try_except":
                # assumed contract of the helper: the first successful application or the exception class
                fam = args[3] if len(args) > 3 else None
                name = fam.info.get("name") if isinstance(fam, ObjV) else None
                pred = {"date_formats": date_ok, "time_formats": time_ok, "datetime_formats": dt_ok}.get(name)
                t = ex.st.ghost.get("ftx_text")
                if pred is None or t is None:
                    if ex.path.choose(2, "for_try_except") == 0:
                        return ObjV("dtval", info={"family": name})
                    raise PyRaise(ExcV("ValueError"))
                if ex.branch(pred(t), f"strptime:{name}"):
                    return ObjV("dtval", info={"family": name})
                raise PyRaise(ExcV("ValueError"))
            if n == "repeat":
                t = self.sv(args[0])
                ex.st.ghost["ftx_text"] = t
                return ObjV("opaque-coll")
            if n in ("chain.from_iterable", "reversed"):
                return ObjV("opaque-coll")
            if n == "re.fullmatch":
                ok = fresh("odl_offset_match", B)
                return ObjV("match-or-none", info={"ok": ok})
            if n == "re.sub":
                return Z("str", fresh("resub", S))
            if n in ("timedelta", "timezone", "datetime.timedelta"):
                return ObjV("val")
            if n == "hasattr":
                return Z("bool", fresh("hasattr", B))
            if n == "round":
                return Z("int", fresh("round", I))
            if n in ("all", "any"):
                if len(args) == 1 and isinstance(args[0], ObjV) and args[0].role == "lazy-gen":
                    return self._short_circuit(ex, args[0], n == "any")      # over a tuple display: element by element
                return Z("bool", fresh(n, B))
            if n == "Token":
                return ObjV("token", info={"text": fresh("tok", S)})
        return super().call(ex, fv, args, kwargs, node)

    def call_method(self, ex, recv, name, args, kwargs):
        t = self.sv(recv)
        if isinstance(recv, ObjV) and recv.role == "regex" and name == "fullmatch":
            ok = matches(recv.info["pat"], self.sv(args[0]))
            return ObjV("match-or-none", info={"ok": ok})
        if isinstance(recv, ObjV) and recv.role == "match-or-none":
            if name == "groupdict":
                return ObjV("dict")
        if isinstance(recv, ObjV) and recv.role == "dtval":
            if name in ("date", "time"):
                return ObjV("dtval", info=dict(recv.info, kind=name))
            if name == "utcoffset":
                # strptime with a format without %z gives a naive object (ground obligation: no format has %z);
                # after replace(tzinfo=...) the object is aware
                return ObjV("offset-or-none", info={"none": z3.BoolVal(not recv.info.get("tz"))})
            if name == "replace":
                tz = kwargs.get("tzinfo")
                which = "utc" if isinstance(tz, FuncV) and tz.name == "timezone.utc" else \
                    "default" if isinstance(tz, ObjV) and tz.role == "tz-or-none" else "other"
                return ObjV("dtval", info=dict(recv.info, tz=which))
        if isinstance(recv, ObjV) and recv.role == "val" and name in ("replace", "utcoffset", "date", "time"):
            return ObjV("val")
        if isinstance(recv, ObjV) and recv.role == "dict" and name in ("get",):
            return Z("str", fresh("group", S))
        if isinstance(recv, ObjV) and recv.role == "opaque-coll" and name in ("items", "keys", "values"):
            return ObjV("opaque-coll")
        if isinstance(recv, ObjV) and recv.role == "decoder":
            # Token -> decoder calls go through the decoder contracts of PVLDecoder (any subclass refines them)
            c = self.lookup_method_contract("PVLDecoder", name)
            if c is None:
                raise Untranslatable(f"decoder.{name} has no contract")
            return self.call_contract(ex, c, ObjV("self", cls="PVLDecoder", info={"oid": "dec"}), args, kwargs, "decoder." + name)
        if t is not None and isinstance(recv, ObjV):
            # methods of str on a Token
            if name == "casefold":
                return Z("str", casefold(t))
            if name == "startswith":
                return Z("bool", prefixof(t, self.sv(args[0])))
            if name == "endswith":
                return Z("bool", suffixof(t, self.sv(args[0])))
        if t is not None and name in ("startswith", "endswith") and isinstance(args[0], TupV):
            f = prefixof if name == "startswith" else suffixof
            return Z("bool", z3.Or(*[f(t, self.sv(x)) for x in args[0].items]))
        if t is not None and name in ("isalpha", "isdigit", "isprintable"):
            return Z("bool", fresh(name, B))
        if t is not None and name == "encode":
            if ex.path.choose(2, "encode") == 0:
                return ObjV("val")
            raise PyRaise(ExcV("UnicodeEncodeError"))
        if t is not None and name in ("rpartition", "partition"):
            return TupV([Z("str", fresh("p0", S)), Z("str", fresh("p1", S)), Z("str", fresh("p2", S))])
        if t is not None and name == "strip":
            return Z("str", fresh("stripped", S))
        return super().call_method(ex, recv, name, args, kwargs)

    def s_opaque_for(self, ex, node, spec_name):
        pass
