"""Frame / initialisation / allocation-site back end: syntactic + conservative data-flow
obligations over the same ASTs (re-read from /repo on every run).  Each store site, mutator
call site or allocation site is one obligation; the analysis over-approximates (anything it
cannot classify as fresh-local fails) and so fails closed."""
import ast

from .source import Program, module_ast
from .core import MUTATORS
from ..harness import DISCHARGED, FAILED

FRESH_CALLS = {"list", "dict", "set", "tuple", "str", "int", "float", "len", "max", "min", "sorted", "format",
               "repr", "frozenset", "round", "abs", "bool", "type", "getattr", "isinstance", "zip", "enumerate",
               "range", "map", "iter", "any", "all", "divmod"}
DYNAMIC = {"setattr", "delattr", "exec", "eval", "globals", "vars", "__import__"}
ITEM_MUTATORS = MUTATORS | {"__setitem__", "__delitem__", "send", "throw", "write", "seek", "extendleft", "appendleft"}


class FuncFacts:
    """Per-function classification of local names: 'fresh' (object created inside the call and
    not reachable from a parameter), 'param' (a parameter or something reachable from one),
    'self', 'unknown'."""

    def __init__(self, fn, self_fresh_methods=True):
        self.fn = fn
        self.params = [a.arg for a in fn.args.posonlyargs + fn.args.args + fn.args.kwonlyargs]
        if fn.args.vararg:
            self.params.append(fn.args.vararg.arg)
        if fn.args.kwarg:
            self.params.append(fn.args.kwarg.arg)
        self.cls = {}
        for p in self.params:
            self.cls[p] = "self" if p == "self" else "param"
        self.self_fresh_methods = self_fresh_methods
        # iterate to a fixed point over assignments (flow-insensitive join: param wins over fresh)
        changed = True
        n = 0
        while changed and n < 10:
            changed = False
            n += 1
            for node in ast.walk(fn):
                pairs = []
                if isinstance(node, ast.Assign):
                    for t in node.targets:
                        pairs += self.bind(t, node.value)
                elif isinstance(node, ast.AnnAssign) and node.value is not None:
                    pairs += self.bind(node.target, node.value)
                elif isinstance(node, ast.AugAssign):
                    pairs += self.bind(node.target, node.value)
                elif isinstance(node, (ast.For, ast.comprehension)):
                    src = self.classify(node.iter)
                    c = "param" if src in ("param", "self") else ("fresh" if src == "fresh" else "unknown")
                    for nm in _names(node.target):
                        pairs.append((nm, c))
                elif isinstance(node, ast.With):
                    for it in node.items:
                        if it.optional_vars is not None:
                            for nm in _names(it.optional_vars):
                                pairs.append((nm, "unknown"))
                elif isinstance(node, ast.ExceptHandler) and node.name:
                    pairs.append((node.name, "fresh"))
                for nm, c in pairs:
                    old = self.cls.get(nm)
                    new = _join(old, c)
                    if new != old:
                        self.cls[nm] = new
                        changed = True

    def bind(self, target, value):
        c = self.classify(value)
        out = []
        if isinstance(target, ast.Name):
            out.append((target.id, c))
        elif isinstance(target, (ast.Tuple, ast.List)):
            for nm in _names(target):
                out.append((nm, c if c != "fresh" else "fresh"))
        return out

    def classify(self, e):
        if isinstance(e, ast.Constant) or isinstance(e, ast.JoinedStr):
            return "fresh"
        if isinstance(e, (ast.List, ast.Dict, ast.Set, ast.ListComp, ast.DictComp, ast.SetComp, ast.GeneratorExp)):
            return "fresh"
        if isinstance(e, ast.Tuple):
            cs = [self.classify(x) for x in e.elts]
            return _joinall(cs) if cs else "fresh"
        if isinstance(e, (ast.BinOp, ast.UnaryOp, ast.Compare, ast.BoolOp)):
            return "fresh" if not isinstance(e, ast.BoolOp) else _joinall([self.classify(v) for v in e.values])
        if isinstance(e, ast.IfExp):
            return _joinall([self.classify(e.body), self.classify(e.orelse)])
        if isinstance(e, ast.Name):
            return self.cls.get(e.id, "global")
        if isinstance(e, (ast.Attribute, ast.Subscript, ast.Starred)):
            base = self.classify(e.value)
            return "param" if base in ("param", "self") else base
        if isinstance(e, ast.Call):
            f = e.func
            if isinstance(f, ast.Name):
                if f.id in FRESH_CALLS:
                    # list(x)/tuple(x) copy the container but share the elements: shallowly fresh
                    return "fresh"
                return "fresh" if f.id[:1].isupper() else "unknown"
            if isinstance(f, ast.Attribute):
                base = self.classify(f.value)
                if base == "self":
                    return "fresh" if self.self_fresh_methods else "unknown"
                if base == "fresh":
                    return "fresh"
                if base in ("param",):
                    # e.g. module.items(), value.utcoffset(): may expose the argument's internals
                    return "param"
                if base == "global":
                    return "fresh"        # module-level function / class
                return "unknown"
        if isinstance(e, ast.Lambda):
            return "fresh"
        return "unknown"


def _names(t):
    return [n.id for n in ast.walk(t) if isinstance(n, ast.Name)]


def _join(a, b):
    order = {None: 0, "fresh": 1, "global": 2, "unknown": 3, "param": 4, "self": 5}
    return a if order[a] >= order[b] else b


def _joinall(cs):
    r = None
    for c in cs:
        r = _join(r, c)
    return r or "fresh"


def store_sites(fn, facts):
    """Yield (kind, lineno, receiver-class, description) for every store / mutator call."""
    for node in ast.walk(fn):
        if isinstance(node, (ast.Assign, ast.AugAssign, ast.AnnAssign, ast.Delete)):
            targets = node.targets if isinstance(node, (ast.Assign, ast.Delete)) else [node.target]
            for t in targets:
                for x in ([t] if not isinstance(t, (ast.Tuple, ast.List)) else t.elts):
                    if isinstance(x, (ast.Attribute, ast.Subscript)):
                        yield ("store", x.lineno, facts.classify(x.value), ast.unparse(x))
        elif isinstance(node, ast.Call):
            f = node.func
            if isinstance(f, ast.Attribute) and f.attr in ITEM_MUTATORS:
                yield ("mutator-call", node.lineno, facts.classify(f.value), ast.unparse(node)[:80])
            if isinstance(f, ast.Name) and f.id in DYNAMIC:
                yield ("dynamic", node.lineno, "unknown", ast.unparse(node)[:80])
        elif isinstance(node, (ast.Global, ast.Nonlocal)):
            yield ("global-decl", node.lineno, "global", ", ".join(node.names))


def rel(fn, lineno):
    return lineno - fn.lineno


def check_modifies(section, mod, classes=None, functions=None, allow=None, skip_methods=(), prop="",
                   self_ok_methods=()):
    """modifies-nothing obligation for every method of `classes` (and module functions):
    every store / mutator call must hit a fresh local.  `allow(cls, meth, kind, text)` -> carve-out id
    for the explicitly permitted sites."""
    program = Program([mod])
    todo = []
    for cname in classes or []:
        ci = program.classes.get(f"{mod}.{cname}")
        if ci is None:
            section.obl(f"{mod}.{cname}:class-exists", FAILED, "frame", detail="class not found")
            continue
        for mname, fn in ci.methods.items():
            if mname in skip_methods:
                continue
            todo.append((f"{mod}.{cname}.{mname}", cname, mname, fn))
    for fname in functions or []:
        fn = program.functions.get(f"{mod}.{fname}")
        if fn is None:
            section.obl(f"{mod}.{fname}:function-exists", FAILED, "frame", detail="function not found")
            continue
        todo.append((f"{mod}.{fname}", None, fname, fn))
    for qual, cname, mname, fn in todo:
        facts = FuncFacts(fn)
        n = 0
        for kind, line, rc, text in store_sites(fn, facts):
            n += 1
            name = f"{qual}:{kind}@+{rel(fn, line)}:{text[:50]}"
            if rc == "fresh":
                section.obl(name + ":receiver-is-fresh-local", DISCHARGED, "frame", function=qual)
                continue
            if rc == "self" and mname in self_ok_methods:
                section.obl(name + ":configuration-store-in-constructor", DISCHARGED, "frame", function=qual)
                continue
            carve = allow(cname, mname, kind, text) if allow else None
            if carve:
                section.obl(name + ":permitted-site", DISCHARGED, "frame", function=qual, carveouts=[carve])
                continue
            section.obl(name + ":modifies-nothing", FAILED, "frame",
                        detail=f"{kind} on a {rc} object: {text} (line {line})", function=qual)
        if n == 0:
            section.obl(f"{qual}:no-store-sites", DISCHARGED, "frame", function=qual)


def call_sites(mod, names):
    """All calls `name(...)` (Name or attribute tail) in module, with enclosing function qualname."""
    tree = module_ast(mod)
    out = []

    def walk(node, ctx):
        for c in ast.iter_child_nodes(node):
            c_ctx = ctx
            if isinstance(c, (ast.FunctionDef, ast.ClassDef)):
                c_ctx = ctx + [c.name]
            if isinstance(c, ast.Call):
                f = c.func
                nm = f.id if isinstance(f, ast.Name) else (f.attr if isinstance(f, ast.Attribute) else None)
                if nm in names:
                    out.append((".".join(ctx), nm, c.lineno, ast.unparse(c)[:80], c))
            walk(c, c_ctx)
    walk(tree, [])
    return out
