"""T_lex: theory for the per-character helper functions of pvl/lexer.py.

Strings are values of the uninterpreted sort Str (concatenation, length, character-at are
uninterpreted functions; distinct literals are distinct).  The *preserve* dict is a record
(state: Int, end: optional Str); c_info and the grammar are objects whose tables are
uninterpreted finite sets / maps / pair lists of strings, so every obligation holds for
arbitrary table contents (in particular for all five grammars)."""
import ast

import z3

from .core import (Conc, Z, TupV, ExcV, ObjV, BoundM, FuncV, OPAQUE_STR, OpaqueStr, PyRaise,
                   Untranslatable, PathEnd, fresh, _Break, _Continue)
from .objtheory import ObjTheory, sval, S, I, B, strlen, strcat, lit

from .tables import TableMixin, set_has, pairs_has       # noqa: E402  (table id, member)
map_has = z3.Function("strmap_has_key", I, S, B)
map_get = z3.Function("strmap_get", I, S, S)
map_hasval = z3.Function("strmap_has_value", I, S, B)
pairs_len = z3.Function("pairs_len", I, I)
sub_in = z3.Function("str_is_substring", S, S, B)     # (needle, haystack)
charat = z3.Function("str_char_at", S, I, S)
re_match = z3.Function("re_fullmatch", I, S, B)       # (regex id, text)
allowed = z3.Function("grammar_char_allowed", S, B)
tok_numeric = z3.Function("Token_is_numeric", S, B)   # Token(text, grammar=g).is_numeric()
tok_datetime = z3.Function("Token_is_datetime", S, B)
lower = z3.Function("str_lower", S, S)
only_c = z3.Function("only_the_supported_multichar_comment_pair", I, B)   # every pair of the table is ("/*", "*/")
tok_is = z3.Function("Token_predicate_of_text", I, S, B)       # (predicate id, text) for the lexer's own tokens
prefix_at = z3.Function("text_starts_with_one_of_at", I, S, I, B)   # (tuple-expression id, text, position)
suffix_any = z3.Function("text_ends_with_one_of", I, S, B)
NONE_END = z3.Const("no_end", S)

TABLES = {}


def tid(name):
    if name not in TABLES:
        TABLES[name] = len(TABLES) + 1
    return z3.IntVal(TABLES[name])


def preserve_values():
    import pvl.lexer as L
    return {m.name: m.value for m in L.Preserve}


def rec(state, end_none, end):
    return ObjV("rec", info={"state": state, "end_none": end_none, "end": end})


def rec_eq(a, b):
    return z3.And(a.info["state"] == b.info["state"], a.info["end_none"] == b.info["end_none"],
                  z3.Implies(z3.Not(a.info["end_none"]), a.info["end"] == b.info["end"]))


def optstr(none, val):
    return ObjV("optstr", info={"none": none, "val": val})


class LexTheory(TableMixin, ObjTheory):
    name = "T_lex"
    feasible_axioms = False
    candidate_models = True

    def axioms(self):
        a, b = z3.Consts("ca cb", S)
        k = z3.Const("tk", I)
        return super().axioms() + [
            z3.ForAll([a, b], strlen(strcat(a, b)) == strlen(a) + strlen(b), patterns=[strcat(a, b)]),
            z3.ForAll([k], pairs_len(k) >= 0, patterns=[pairs_len(k)]),
            z3.ForAll([k, a, b], z3.Implies(pairs_has(k, a, b), pairs_len(k) > 0), patterns=[pairs_has(k, a, b)]),
            z3.ForAll([k, a, b], z3.Implies(z3.And(only_c(k), pairs_has(k, a, b)), z3.And(a == lit("/*"), b == lit("*/"))),
                      patterns=[z3.MultiPattern(only_c(k), pairs_has(k, a, b))]),
            z3.ForAll([k, a], z3.Implies(map_has(k, a), map_hasval(k, map_get(k, a))), patterns=[map_get(k, a)]),
        ]

    # ---- kinds ---------------------------------------------------------------------
    def fresh_of_kind(self, kind, nm):
        if kind == "preserve":
            return rec(fresh(nm + "_state", I), fresh(nm + "_end_is_none", B), fresh(nm + "_end", S))
        if kind == "char":
            return Z("str", fresh(nm, S))
        if kind == "optchar":
            return optstr(fresh(nm + "_is_none", B), fresh(nm, S))
        if kind == "cinfo":
            return ObjV("cinfo")
        if kind == "grammar":
            return ObjV("grammar")
        if kind == "strmap":
            return ObjV("strmap", info={"id": tid("param:" + nm)})
        if kind == "pairs":
            return ObjV("pairs", info={"id": tid("param:" + nm)})
        if kind == "token":
            return ObjV("token", info={"text": fresh(nm + "_text", S)})
        return super().fresh_of_kind(kind, nm)

    def fresh_result(self, ex, res, label):
        if res == "lexstep":
            return TupV([Z("str", fresh("lexeme_out", S)), self.fresh_of_kind("preserve", "preserve_out")])
        if res == "optchar":
            return optstr(fresh("char_is_none", B), fresh("char_out", S))
        return super().fresh_result(ex, res, label)

    def result_conforms(self, ex, res_kind, v):
        if res_kind == "lexstep":
            return (isinstance(v, TupV) and len(v.items) == 2 and sval(v.items[0]) is not None
                    and isinstance(v.items[1], ObjV) and v.items[1].role == "rec")
        if res_kind == "optchar":
            return (isinstance(v, Conc) and v.v is None) or sval(v) is not None or (isinstance(v, ObjV) and v.role == "optstr")
        return super().result_conforms(ex, res_kind, v)

    def coerce_result(self, ex, res_kind, v):
        if res_kind == "optchar":
            if isinstance(v, Conc) and v.v is None:
                return optstr(z3.BoolVal(True), NONE_END)
            if sval(v) is not None:
                return optstr(z3.BoolVal(False), sval(v))
        if res_kind == "lexstep":
            return TupV([Z("str", sval(v.items[0])), v.items[1]])
        return super().coerce_result(ex, res_kind, v)

    def global_name(self, ex, name):
        if name in ("Preserve", "dict", "Token", "tuple", "enumerate", "LexerError"):
            return FuncV(name)
        return super().global_name(ex, name)

    # ---- attributes ------------------------------------------------------------------
    def getattr(self, ex, recv, attr):
        if isinstance(recv, FuncV) and recv.name == "Preserve":
            vals = preserve_values()
            if attr not in vals:
                raise PyRaise(ExcV("AttributeError"))
            return Z("int", z3.IntVal(vals[attr]))
        if isinstance(recv, ObjV) and recv.role == "grammar":
            if attr in ("whitespace", "quotes", "reserved_characters", "numeric_start_chars"):
                return ObjV("strset", info={"id": tid("g." + attr)})
            if attr == "units_delimiters":
                return TupV([Z("str", z3.Const("units_open", S)), Z("str", z3.Const("units_close", S))])
            if attr == "nondecimal_pre_re":
                return ObjV("regex", info={"id": tid("g.nondecimal_pre_re")})
            if attr == "comments":
                return ObjV("pairs", info={"id": tid("g.comments")})
            return BoundM(recv, attr)
        if isinstance(recv, ObjV) and recv.role in ("regex", "strmap", "token", "strset"):
            return BoundM(recv, attr)
        return super().getattr(ex, recv, attr)

    # ---- values ----------------------------------------------------------------------
    def is_none(self, ex, a):
        if isinstance(a, ObjV) and a.role == "optstr":
            return a.info["none"]
        if isinstance(a, ObjV) and a.role == "optmatch":
            return z3.Not(a.info["some"])
        return super().is_none(ex, a)

    def eq(self, ex, a, b):
        for x, y in ((a, b), (b, a)):
            if isinstance(x, ObjV) and x.role == "optstr":
                sy = sval(y)
                if sy is not None:
                    return z3.And(z3.Not(x.info["none"]), x.info["val"] == sy)
                if isinstance(y, Conc) and y.v is None:
                    return x.info["none"]
                if isinstance(y, ObjV) and y.role == "optstr":
                    return z3.Or(z3.And(x.info["none"], y.info["none"]),
                                 z3.And(z3.Not(x.info["none"]), z3.Not(y.info["none"]), x.info["val"] == y.info["val"]))
        return super().eq(ex, a, b)

    def contains(self, ex, container, item):
        if isinstance(container, ObjV):
            si = sval(item)
            r = container.role
            if r == "strset" and si is not None:
                return set_has(container.info["id"], si)
            if r == "strset" and isinstance(item, ObjV) and item.role == "optstr":
                # None is never a member of a table of strings
                return z3.And(z3.Not(item.info["none"]), set_has(container.info["id"], item.info["val"]))
            if r == "strmap" and si is not None:
                return map_has(container.info["id"], si)
            if r == "mapvalues":
                if si is not None:
                    return map_hasval(container.info["id"], si)
                if isinstance(item, ObjV) and item.role == "optstr":
                    return z3.And(z3.Not(item.info["none"]), map_hasval(container.info["id"], item.info["val"]))
            if r == "pairs" and isinstance(item, TupV) and len(item.items) == 2:
                a, b = sval(item.items[0]), sval(item.items[1])
                if a is not None and b is not None:
                    return pairs_has(container.info["id"], a, b)
        sc, si = sval(container), sval(item)
        if sc is not None and si is not None:
            return sub_in(si, sc)
        if sc is not None and isinstance(item, ObjV) and item.role == "optstr":
            raise Untranslatable("None in str")
        return super().contains(ex, container, item)

    def getitem(self, ex, recv, idx):
        if isinstance(recv, ObjV) and recv.role == "rec" and isinstance(idx, Conc):
            if idx.v == "state":
                return Z("int", recv.info["state"])
            if idx.v == "end":
                return optstr(recv.info["end_none"], recv.info["end"])
            raise PyRaise(ExcV("KeyError"))
        if isinstance(recv, ObjV) and recv.role == "cinfo" and isinstance(idx, Conc):
            role = {"multi_chars": "strset", "chars": "strset", "single_comments": "strmap",
                    "multi_comments": "pairs"}.get(idx.v)
            if role is None:
                raise PyRaise(ExcV("KeyError"))
            return ObjV(role, info={"id": tid("c_info." + idx.v)})
        if isinstance(recv, ObjV) and recv.role == "strmap":
            s = sval(idx)
            if s is not None:
                if ex.branch(map_has(recv.info["id"], s), "key-present"):
                    return Z("str", map_get(recv.info["id"], s))
                raise PyRaise(ExcV("KeyError"))
        s = sval(recv)
        if s is not None:
            i = ex.as_int(idx)
            if i is not None:
                n = strlen(s)
                if ex.branch(z3.And(i < n, i >= -n), "index-in-range"):
                    return Z("str", charat(s, z3.If(i < 0, i + n, i)))
                raise PyRaise(ExcV("IndexError"))
        return super().getitem(ex, recv, idx)

    def binop(self, ex, op, a, b):
        if isinstance(op, ast.Add):
            for x in (a, b):
                if isinstance(x, ObjV) and x.role == "optstr":
                    # str + None raises TypeError; str + str concatenates
                    if ex.branch(x.info["none"], "operand-is-None"):
                        raise PyRaise(ExcV("TypeError"))
                    x2 = Z("str", x.info["val"])
                    return self.binop(ex, op, x2 if x is a else a, x2 if x is b else b)
        return super().binop(ex, op, a, b)

    def truth(self, ex, v):
        if isinstance(v, ObjV) and v.role in ("rec", "token", "grammar", "cinfo"):
            return True
        return super().truth(ex, v)

    # ---- calls -----------------------------------------------------------------------
    def dict_display(self, ex, keys, values):
        """{"state": s, "end": e} is dict(state=s, end=e)"""
        if all(isinstance(k, Conc) and isinstance(k.v, str) for k in keys):
            return self.call(ex, FuncV("dict"), [], {k.v: v for k, v in zip(keys, values)}, None)
        raise Untranslatable("dict display")

    def call(self, ex, fv, args, kwargs, node):
        if isinstance(fv, FuncV) and fv.name == "dict":
            if args or set(kwargs) != {"state", "end"}:
                raise Untranslatable("dict(...) other than dict(state=, end=)")
            st, en = kwargs["state"], kwargs["end"]
            sti = ex.as_int(st)
            if sti is None:
                raise Untranslatable("state value")
            if isinstance(en, Conc) and en.v is None:
                return rec(sti, z3.BoolVal(True), NONE_END)
            if sval(en) is not None:
                return rec(sti, z3.BoolVal(False), sval(en))
            if isinstance(en, ObjV) and en.role == "optstr":
                return rec(sti, en.info["none"], en.info["val"])
            raise Untranslatable("end value")
        if isinstance(fv, FuncV) and fv.name == "Token":
            t = sval(args[0])
            if t is None or set(kwargs) - {"grammar", "decoder", "pos"}:
                raise Untranslatable("Token(...)")
            return ObjV("token", info={"text": t})
        if isinstance(fv, FuncV) and fv.name == "tuple":
            if len(args) == 1 and isinstance(args[0], ObjV) and args[0].role in ("opaque-gen", "genexp") and "src" in args[0].info:
                return ObjV("opaque-tuple", info={"id": tid("expr:" + args[0].info["src"]), "src": args[0].info["src"]})
            raise Untranslatable("tuple(...)")
        if isinstance(fv, FuncV) and fv.name == "enumerate":
            t = sval(args[0])
            if t is None:
                raise Untranslatable("enumerate(non-text)")
            return ObjV("enum-chars", info={"text": t})
        return super().call(ex, fv, args, kwargs, node)

    def call_method(self, ex, recv, name, args, kwargs):
        if isinstance(recv, ObjV):
            if recv.role == "regex" and name == "fullmatch":
                return ObjV("optmatch", info={"some": re_match(recv.info["id"], sval(args[0]))})
            if recv.role == "strmap" and name == "values":
                return ObjV("mapvalues", info={"id": recv.info["id"]})
            if recv.role == "grammar" and name == "char_allowed":
                a = args[0]
                if isinstance(a, ObjV) and a.role == "optstr":
                    a = Z("str", a.info["val"])
                return Z("bool", allowed(sval(a)))
            if recv.role == "token" and name == "is_numeric":
                return Z("bool", tok_numeric(recv.info["text"]))
            if recv.role == "token" and name == "is_datetime":
                return Z("bool", tok_datetime(recv.info["text"]))
            if recv.role == "token" and name.startswith("is_") and not args:
                return Z("bool", tok_is(tid("pred:" + name), recv.info["text"]))
        s = sval(recv)
        if s is not None and name == "lower":
            return Z("str", lower(s))
        if s is not None and name in ("startswith", "endswith") and args and isinstance(args[0], ObjV) and args[0].role == "opaque-tuple":
            if name == "startswith":
                pos = ex.as_int(args[1]) if len(args) > 1 else z3.IntVal(0)
                return Z("bool", prefix_at(args[0].info["id"], s, pos))
            return Z("bool", suffix_any(args[0].info["id"], s))
        return super().call_method(ex, recv, name, args, kwargs)

    def b_len(self, ex, args, kwargs):
        (v,) = args
        if isinstance(v, ObjV) and v.role == "pairs":
            return Z("int", pairs_len(v.info["id"]))
        return super().b_len(ex, args, kwargs)

    def comprehension(self, ex, node):
        # a generator expression over a grammar table: consumed by any() / all() as a quantifier, or by tuple() as a tuple of
        # texts named by its expression (tuple(p[0] for p in g.comments))
        try:
            v = super().comprehension(ex, node)
            v.info["src"] = ast.unparse(node)
            return v
        except Untranslatable:
            return ObjV("opaque-gen", info={"src": ast.unparse(node)})

    def havoc_value(self, ex, old, nm):
        if isinstance(old, ObjV) and old.role == "rec":
            return self.fresh_of_kind("preserve", nm)
        if isinstance(old, ObjV) and old.role == "optstr":
            return self.fresh_of_kind("optchar", nm)
        return super().havoc_value(ex, old, nm)

    def yield_(self, ex, node):
        v = ex.expr(node.value) if node.value is not None else Conc(None)
        ex.st.ghost.setdefault("yields", []).append(v)
        return Conc(None)            # nothing is sent back (the send protocol is observed natively: protocol section)

    def after_call(self, ex, c, pre, post):
        ex.st.ghost.setdefault("calls_done", []).append(c.target)
        super().after_call(ex, c, pre, post)

    def for_loop(self, ex, node, itv, spec, ordn):
        if isinstance(itv, ObjV) and itv.role == "enum-chars" and getattr(spec, "step", None) is not None:
            return self.step_loop(ex, node, itv, spec, ordn)
        return super().for_loop(ex, node, itv, spec, ordn)

    def step_loop(self, ex, node, itv, spec, ordn):
        """`for i, char in enumerate(text)` with a one-iteration contract: the loop-carried variables are arbitrary at the
        head of an arbitrary iteration i; the body is executed once; spec.step compares the state before, the state
        after and the recorded events (yields) and returns the obligations of the step."""
        q = ex.fv.qual
        lname = f"loop#{ordn}"
        for nm, f in spec.inv(ex.env, ex.st, None):
            ex.oblige(f"{q}:{lname}:inv-established:{nm}", f)
        ex.havoc_loop(node, spec)
        for nm, f in spec.inv(ex.env, ex.st, None):
            ex.st.assume(f)
        if ex.path.choose(2, f"for@{node.lineno}") == 1:
            ex.stmts(node.orelse)
            return
        text = itv.info["text"]
        i = fresh("i", I)
        ch = charat(text, i)
        ex.st.assume(z3.And(i >= 0, i < strlen(text), strlen(ch) == 1))
        ex.assign(node.target, TupV([Z("int", i), Z("str", ch)]))
        before = dict(ex.env)
        ex.st.ghost["yields"] = []
        ex.st.ghost["calls_done"] = []
        action = "end-of-body"
        try:
            ex.stmts(node.body)
        except _Continue:
            action = "continue"
        except _Break:
            raise Untranslatable("break in the lexer loop")
        for nm, f in spec.step(ex, before, dict(ex.env), list(ex.st.ghost.get("yields", [])), action):
            ex.oblige(f"{q}:{lname}:step:{nm}", f)
        for nm, f in spec.inv(ex.env, ex.st, None):
            ex.oblige(f"{q}:{lname}:inv-preserved:{nm}", f)
        raise PathEnd()
