"""Base theory: ints, bools, chars (as code points), opaque strings; generic builtins.
Theories for sequences (collections) and token streams (parser) extend it."""
import ast

import z3

from .core import (Conc, Z, TupV, ExcV, ObjV, BoundM, FuncV, OPAQUE_STR, OpaqueStr, PyRaise,
                   Untranslatable, PathEnd, fresh, EXC_BASES, _Break, _Continue)

MAXCP = 0x10FFFF


class Lazy:
    """A fact schema expanded at query time (see Prover.expand)."""

    def __init__(self, fn, tag=""):
        self.fn = fn
        self.tag = tag


class BaseTheory:
    name = "T_int"

    def __init__(self, program=None, registry=None):
        self.program = program
        self.registry = registry or {}

    # ---- setup -----------------------------------------------------------------
    def axioms(self):
        return []

    def enter(self, ex, fv):
        c = fv.contract
        params = ex.case_params
        ex.args = {}
        fn = fv.fn
        names = [a.arg for a in fn.args.posonlyargs] + [a.arg for a in fn.args.args]
        defaults = dict(zip(names[len(names) - len(fn.args.defaults):], fn.args.defaults))
        for nm in names:
            if nm == "self" or nm == "cls":
                v = self.make_self(ex, fv)
            elif nm in params:
                k = params[nm]
                v = k if not isinstance(k, str) else self.fresh_of_kind(k, nm)
            elif nm in c.defaults:
                v = c.defaults[nm]
            elif nm in defaults:
                v = ex.expr(defaults[nm])
            else:
                raise Untranslatable(f"no kind for parameter {nm}")
            if callable(v) and not isinstance(v, (Conc, Z, TupV, ObjV)):
                v = v(ex)
            ex.args[nm] = v
            ex.env[nm] = v
            for f in self.kind_facts(v):
                ex.st.assume(f)
        if fn.args.vararg:
            nm = fn.args.vararg.arg
            v = params.get("*" + nm, TupV([]))
            if callable(v) and not isinstance(v, (Conc, Z, TupV, ObjV)):
                v = v(ex)
            ex.args[nm] = v
            ex.env[nm] = v
        if fn.args.kwarg:
            nm = fn.args.kwarg.arg
            v = params.get("**" + nm, Conc({}))
            if callable(v) and not isinstance(v, (Conc, Z, TupV, ObjV)):
                v = v(ex)
            ex.args[nm] = v
            ex.env[nm] = v
        self.init_state(ex, fv)
        ex.pre = self.view(ex.st.snapshot(), ex.args.get("self"))
        ex.st.ghost["pre"] = ex.pre
        ex.st.ghost["args"] = ex.args
        for nm, f in c.requires(ex.pre, ex.args):
            ex.st.assume(f)

    def make_self(self, ex, fv):
        return ObjV("self", cls=fv.cls_name)

    def init_state(self, ex, fv):
        pass

    def view(self, snap, recv):
        return snap

    # ---- kinds -----------------------------------------------------------------
    def fresh_of_kind(self, kind, nm):
        if kind == "int":
            return Z("int", fresh(nm, z3.IntSort()))
        if kind == "bool":
            return Z("bool", fresh(nm, z3.BoolSort()))
        if kind == "char":
            return Z("char", fresh(nm, z3.IntSort()))
        if kind == "str":
            return Z("str", fresh(nm, z3.StringSort()))
        if kind == "none":
            return Conc(None)
        if kind == "strlen":
            return Z("strlen", fresh(nm + "_len", z3.IntSort()))
        if kind == "opaque":
            return ObjV("opaque:" + nm)
        raise Untranslatable(f"kind {kind}")

    def kind_facts(self, v):
        if isinstance(v, Z) and v.kind == "char":
            return [v.t >= 0, v.t <= MAXCP]
        if isinstance(v, Z) and v.kind == "strlen":
            return [v.t >= 0, v.t != 1]
        return []

    def fresh_result(self, ex, res, label):
        if res is None or res == "none":
            return Conc(None)
        if callable(res):
            return res(ex)
        v = self.fresh_of_kind(res, "res_" + label)
        for f in self.kind_facts(v):
            ex.st.assume(f)
        return v

    def result_conforms(self, ex, res_kind, v):
        if res_kind is None or res_kind == "none":
            return isinstance(v, Conc) and v.v is None
        if callable(res_kind):
            return True
        if res_kind == "any":
            return True
        if res_kind == "bool":
            return (isinstance(v, Conc) and isinstance(v.v, bool)) or (isinstance(v, Z) and v.kind == "bool")
        if res_kind == "int":
            return (isinstance(v, Conc) and isinstance(v.v, int) and not isinstance(v.v, bool)) or (
                isinstance(v, Z) and v.kind == "int")
        if isinstance(v, Z):
            return v.kind == res_kind
        return False

    def coerce_result(self, ex, res_kind, v):
        if res_kind == "bool" and isinstance(v, Conc):
            return Z("bool", z3.BoolVal(v.v))
        if res_kind == "int" and isinstance(v, Conc):
            return Z("int", z3.IntVal(v.v))
        return v

    # ---- state hooks -------------------------------------------------------------
    def havoc_state(self, ex, body, modifies):
        pass

    def havoc_value(self, ex, old, nm):
        return old

    def havoc_for_call(self, ex, c, recv=None):
        pass

    def after_call(self, ex, c, pre, post):
        pass

    def global_name(self, ex, name):
        return None

    # ---- generic operations --------------------------------------------------------
    def truth(self, ex, v):
        if isinstance(v, Z) and v.kind == "str":
            return z3.Length(v.t) > 0
        if isinstance(v, (ExcV, FuncV, BoundM)):
            return True
        if isinstance(v, OpaqueStr):
            raise Untranslatable("truth of opaque string")
        raise Untranslatable(f"truth of {v!r}")

    def is_(self, ex, a, b):
        if isinstance(a, Conc) and isinstance(b, Conc):
            return a.v is b.v
        if isinstance(b, Conc) and b.v is None:
            return self.is_none(ex, a)
        if isinstance(a, Conc) and a.v is None:
            return self.is_none(ex, b)
        raise Untranslatable(f"is: {a!r} {b!r}")

    def is_none(self, ex, a):
        if isinstance(a, Conc):
            return a.v is None
        return False

    def eq(self, ex, a, b):
        if isinstance(a, Conc) and isinstance(b, Conc):
            return a.v == b.v
        if isinstance(a, Z) and isinstance(b, Z) and a.t.sort() == b.t.sort():
            return a.t == b.t
        ia, ib = ex.as_int(a), ex.as_int(b)
        if ia is not None and ib is not None:
            return ia == ib
        if isinstance(a, Z) and a.kind == "bool" and isinstance(b, Conc) and isinstance(b.v, bool):
            return a.t == z3.BoolVal(b.v)
        if isinstance(a, Z) and a.kind == "str" and isinstance(b, Conc) and isinstance(b.v, str):
            return a.t == z3.StringVal(b.v)
        if isinstance(b, Z) and b.kind == "str" and isinstance(a, Conc) and isinstance(a.v, str):
            return b.t == z3.StringVal(a.v)
        if isinstance(a, Z) and a.kind == "char" and isinstance(b, Conc) and isinstance(b.v, str):
            return a.t == ord(b.v) if len(b.v) == 1 else False
        if isinstance(a, Conc) and a.v is None:
            return self.is_none(ex, b)
        if isinstance(b, Conc) and b.v is None:
            return self.is_none(ex, a)
        if isinstance(a, TupV) and isinstance(b, TupV):
            if len(a.items) != len(b.items):
                return False
            parts = [self.eq(ex, x, y) for x, y in zip(a.items, b.items)]
            if any(p is False for p in parts):
                return False
            zs = [p for p in parts if not isinstance(p, bool)]
            return z3.And(*zs) if zs else True
        raise Untranslatable(f"== on {a!r} and {b!r}")

    def compare(self, ex, op, a, b):
        raise Untranslatable(f"comparison {type(op).__name__} on {a!r}, {b!r}")

    def contains(self, ex, container, item):
        if isinstance(container, Conc) and isinstance(item, Conc):
            return item.v in container.v
        if isinstance(container, TupV):
            parts = [self.eq(ex, item, x) for x in container.items]
            if any(p is True for p in parts):
                return True
            zs = [p for p in parts if not isinstance(p, bool)]
            return z3.Or(*zs) if zs else False
        if isinstance(container, Conc) and isinstance(container.v, (tuple, list, set, frozenset, dict)):
            parts = [self.eq(ex, item, Conc(x)) for x in container.v]
            if any(p is True for p in parts):
                return True
            zs = [p for p in parts if not isinstance(p, bool)]
            return z3.Or(*zs) if zs else False
        raise Untranslatable(f"in: {item!r} in {container!r}")

    def binop(self, ex, op, a, b):
        raise Untranslatable(f"binop {type(op).__name__} on {a!r}, {b!r}")

    def unpack(self, ex, v, n):
        raise Untranslatable(f"unpack {v!r}")

    def getattr(self, ex, recv, attr):
        if isinstance(recv, FuncV):
            return FuncV(recv.name + "." + attr)
        if isinstance(recv, ObjV) and recv.role in ("self", "super") and self.program is not None:
            dcls, node = self.program.find_method(recv.cls, attr, recv.info.get("after"))
            if isinstance(node, ast.Constant):
                key = f"{recv.info.get('oid', recv.role)}.{attr}"
                if key in getattr(ex.st, "th", {}):
                    return ex.st.th[key]         # shadowed by an instance attribute stored on this path
                return Conc(node.value)          # a class-level constant read through the instance
            if node is not None:
                return BoundM(recv, attr)
            return self.field(ex, recv, attr)
        return BoundM(recv, attr)

    def field(self, ex, recv, attr):
        raise Untranslatable(f"field {recv!r}.{attr}")

    def lookup_method_contract(self, cls, name, after=None):
        dcls, node = self.program.find_method(cls, name, after)
        if node is None:
            return None
        best = None
        for c in self.registry.values():
            if c.fn is node or (isinstance(node, ast.Attribute) and getattr(c, "alias_of", None)
                                and c.target.endswith("." + name) and c.cls_name in self.program.mro(cls)):
                if c.cls_name == cls:
                    return c
                best = best or c
        return best

    def setattr(self, ex, recv, attr, v):
        raise Untranslatable(f"attribute store {recv!r}.{attr}")

    def getitem(self, ex, recv, idx):
        raise Untranslatable(f"subscript {recv!r}[{idx!r}]")

    def setitem(self, ex, recv, idx, v):
        raise Untranslatable(f"subscript store {recv!r}[{idx!r}]")

    def delitem(self, ex, recv, idx):
        raise Untranslatable(f"del {recv!r}[{idx!r}]")

    def getslice(self, ex, recv, lo, hi):
        raise Untranslatable("slice")

    def setslice(self, ex, recv, lo, hi, v):
        raise Untranslatable("slice store")

    def empty_list(self, ex):
        raise Untranslatable("list display")

    def list_display(self, ex, items):
        raise Untranslatable("list display")

    def comprehension(self, ex, node):
        raise Untranslatable("comprehension")

    def yield_(self, ex, node):
        raise Untranslatable("yield")

    def for_loop(self, ex, node, it, spec, ordn):
        raise Untranslatable("for loop over " + repr(it))

    # ---- calls -----------------------------------------------------------------
    def call(self, ex, fv, args, kwargs, node):
        if type(fv).__name__ == "LambdaV" and not kwargs:
            return ex.call_lambda(fv, args)
        if isinstance(fv, FuncV):
            m = getattr(self, "b_" + fv.name.replace(".", "_"), None)
            if m is not None:
                return m(ex, args, kwargs)
            c = self.lookup_function_contract(fv.name)
            if c is not None:
                return self.call_contract(ex, c, None, args, kwargs, fv.name)
            fn = self.module_function(fv.name)
            if fn is not None:
                return ex.inline(fn, self.bind_args(ex, fn, None, args, kwargs), fv.name)
        if isinstance(fv, BoundM):
            return self.call_method(ex, fv.recv, fv.name, args, kwargs)
        raise Untranslatable(f"call of {fv!r}")

    def b_bool(self, ex, args, kwargs):
        if not args:
            return Conc(False)
        t = ex.truth(args[0])
        return Conc(t) if isinstance(t, bool) else Z("bool", t)

    def module_function(self, name):
        """a module-level private function of the verified modules that has no contract (a helper to be inlined)"""
        if self.program is None or "." in name or not name.startswith("_"):
            return None
        for key, fn in getattr(self.program, "functions", {}).items():
            if key.endswith("." + name) and isinstance(fn, ast.FunctionDef):
                return fn
        return None

    def bind_args(self, ex, fn, recv, args, kwargs):
        names = [a.arg for a in fn.args.posonlyargs] + [a.arg for a in fn.args.args]
        amap = {}
        if names and names[0] in ("self", "cls"):
            if recv is not None:
                amap[names[0]] = recv
            names = names[1:]
        for nm, v in zip(names, args):
            amap[nm] = v
        extra = list(args)[len(names):]
        if fn.args.vararg:
            amap[fn.args.vararg.arg] = TupV(extra)
        elif extra:
            raise PyRaise(ExcV("TypeError"))
        for k, v in kwargs.items():
            if k != "**":
                amap[k] = v
        defaults = dict(zip(names[len(names) - len(fn.args.defaults):], fn.args.defaults))
        for nm in names:
            if nm not in amap:
                if nm in defaults and isinstance(defaults[nm], ast.Constant):
                    amap[nm] = Conc(defaults[nm].value)
                else:
                    raise Untranslatable(f"argument {nm} of an inlined helper")
        return amap

    def lookup_function_contract(self, name):
        for key, c in self.registry.items():
            if key == name or key.endswith("." + name):
                if c.is_function:
                    return c
        return None

    def call_contract(self, ex, c, recv, args, kwargs, label):
        fn = c.fn
        names = [a.arg for a in fn.args.posonlyargs] + [a.arg for a in fn.args.args]
        if names and names[0] in ("self", "cls"):
            names = names[1:]
        amap = {}
        if recv is not None:
            amap["self"] = recv
        pos = [a for a in args]
        for nm, v in zip(names, pos):
            amap[nm] = v
        extra = pos[len(names):]
        if fn.args.vararg:
            amap[fn.args.vararg.arg] = TupV(extra)
        elif extra:
            raise PyRaise(ExcV("TypeError"))
        for k, v in kwargs.items():
            if k == "**":
                if fn.args.kwarg:
                    amap[fn.args.kwarg.arg] = v
                continue
            amap[k] = v
        if fn.args.kwarg and fn.args.kwarg.arg not in amap:
            amap[fn.args.kwarg.arg] = Conc({})
        defaults = dict(zip(names[len(names) - len(fn.args.defaults):], fn.args.defaults))
        for nm in names:
            if nm not in amap:
                if nm in defaults:
                    amap[nm] = self.default_value(ex, c, nm, defaults[nm])
                else:
                    raise PyRaise(ExcV("TypeError"))
        return ex.apply_contract(c, amap, label, recv)

    def default_value(self, ex, c, nm, node):
        if isinstance(node, ast.Constant):
            return Conc(node.value)
        if nm in c.defaults:
            return c.defaults[nm]
        raise Untranslatable(f"default of {nm}")

    def call_method(self, ex, recv, name, args, kwargs):
        if isinstance(recv, ObjV) and recv.role in ("self", "super") and self.program is not None:
            c = self.lookup_method_contract(recv.cls, name, recv.info.get("after"))
            if c is None:
                dcls, node = self.program.find_method(recv.cls, name, recv.info.get("after"))
                if isinstance(node, ast.FunctionDef) and name.startswith("_") and not name.startswith("__"):
                    obj = recv.info.get("obj", recv) if recv.role == "super" else recv
                    return ex.inline(node, self.bind_args(ex, node, obj, args, kwargs), f"{recv.cls}.{name}")
                raise Untranslatable(f"callee {recv.cls}.{name} has no contract")
            obj = recv.info.get("obj", recv) if recv.role == "super" else recv
            return self.call_contract(ex, c, obj, args, kwargs, name)
        if isinstance(recv, Z) and recv.kind == "char":
            if name == "encode":
                enc = kwargs.get("encoding", args[0] if args else Conc("utf-8"))
                if isinstance(enc, Conc) and enc.v == "ascii":
                    # assumed builtin contract (validated exhaustively every run):
                    # chr(o).encode("ascii") raises UnicodeEncodeError iff o >= 128
                    if ex.branch(recv.t < 128, "encode-ascii"):
                        return ObjV("bytes")
                    raise PyRaise(ExcV("UnicodeEncodeError"))
        if isinstance(recv, Z) and recv.kind == "strlen" and name == "encode":
            # a string of length != 1: encoding may succeed or fail
            if ex.path.choose(2, "encode-any") == 0:
                return ObjV("bytes")
            raise PyRaise(ExcV("UnicodeEncodeError"))
        if isinstance(recv, (OpaqueStr,)):
            return OPAQUE_STR
        raise Untranslatable(f"method {name} on {recv!r}")

    # builtins
    def b_len(self, ex, args, kwargs):
        (v,) = args
        if isinstance(v, Conc):
            return Conc(len(v.v))
        if isinstance(v, TupV):
            return Conc(len(v.items))
        if isinstance(v, Z) and v.kind == "char":
            return Conc(1)
        if isinstance(v, Z) and v.kind == "str":
            return Z("int", z3.Length(v.t))
        if isinstance(v, Z) and v.kind == "strlen":
            return Z("int", v.t)
        return self.len_(ex, v)

    def len_(self, ex, v):
        raise Untranslatable(f"len of {v!r}")

    def b_ord(self, ex, args, kwargs):
        (v,) = args
        if isinstance(v, Z) and v.kind == "char":
            return Z("int", v.t)
        if isinstance(v, Conc):
            return Conc(ord(v.v))
        raise Untranslatable("ord")

    def b_str(self, ex, args, kwargs):
        (v,) = args
        if isinstance(v, Z) and v.kind in ("str", "tok"):
            return v
        if isinstance(v, Conc):
            return Conc(str(v.v))
        return OPAQUE_STR

    def b_isinstance(self, ex, args, kwargs):
        v, t = args
        names = []
        for x in (t.items if isinstance(t, TupV) else [t]):
            if isinstance(x, FuncV):
                names.append(x.name)
            else:
                raise Untranslatable("isinstance class expr")
        return self.isinstance_(ex, v, names)

    def isinstance_(self, ex, v, names):
        if isinstance(v, Conc):
            pyt = {"int": int, "str": str, "bool": bool, "slice": slice, "list": list, "tuple": tuple,
                   "float": float}
            r = False
            for n in names:
                if n in pyt:
                    r = r or isinstance(v.v, pyt[n])
                else:
                    raise Untranslatable(f"isinstance(concrete, {n})")
            return Conc(r)
        if isinstance(v, Z) and v.kind in ("int", "bool", "str", "char"):
            k = {"int": {"int"}, "bool": {"bool", "int"}, "str": {"str"}, "char": {"str"}}[v.kind]
            return Conc(any(n in k for n in names))
        raise Untranslatable(f"isinstance({v!r}, {names})")

    def b_super(self, ex, args, kwargs):
        if args:
            # super(Class, self): continue the MRO after Class
            c = args[0]
            return ObjV("super", cls=ex.fv.cls_name, info={"after": c.name if isinstance(c, FuncV) else None,
                                                            "obj": args[1]})
        return ObjV("super", cls=ex.fv.cls_name, info={"after": ex.fv.def_cls, "obj": ex.env.get("self")})
