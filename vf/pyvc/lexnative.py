"""Run-time evaluation of the T_lex contracts on the real functions of pvl/lexer.py.

The same Contract objects that the verifier discharges are evaluated on concrete calls: the
real function is called natively, its inputs and its result are bound to the contract's symbols,
and the `when` / `post` formulas are evaluated with every uninterpreted function symbol of T_lex
interpreted by the real Python operation it stands for (str_concat = +, strset_has = `in` on the
real grammar table, re_fullmatch = the grammar's compiled pattern, Token_is_numeric = the real
Token predicate, ...).  Used (a) as the CPython cross-check of the theory's modelling on an
enumerated small domain and (b) to find a concrete failing input when an obligation fails.
Bounded; never counted as proved."""
import itertools

import z3

from .core import Conc, Z, TupV, ObjV
from . import objtheory as O
from . import lextheory as T

NONE = object()


class Interp:
    def __init__(self, g, d, c_info, env, tables):
        self.g, self.d, self.c_info, self.env, self.tables = g, d, c_info, env, tables

    def table(self, i):
        name = {v: k for k, v in T.TABLES.items()}[i]
        if name in self.tables:
            return self.tables[name]
        if name.startswith("g."):
            return getattr(self.g, name[2:])
        if name.startswith("c_info."):
            return self.c_info[name[7:]]
        raise KeyError(name)

    def const(self, name):
        if name in self.env:
            return self.env[name]
        for t, (c, k) in O._LITS.items():
            if str(c) == name:
                return t
        if name == "units_open":
            return self.g.units_delimiters[0]
        if name == "units_close":
            return self.g.units_delimiters[1]
        if name == "no_end":
            return NONE
        raise KeyError(name)

    def app(self, name, a):
        from pvl.token import Token
        if name == "str_concat":
            return a[0] + a[1]
        if name == "str_len":
            return len(a[0])
        if name == "strset_has":
            return a[1] is not NONE and a[1] in self.table(a[0])
        if name == "strmap_has_key":
            return a[1] in self.table(a[0])
        if name == "strmap_get":
            return self.table(a[0]).get(a[1], NONE)
        if name == "strmap_has_value":
            return a[1] in self.table(a[0]).values()
        if name == "pairs_has":
            return (a[1], a[2]) in tuple(self.table(a[0]))
        if name == "pairs_len":
            return len(self.table(a[0]))
        if name == "str_is_substring":
            return a[0] in a[1]
        if name == "str_char_at":
            return a[0][a[1]] if -len(a[0]) <= a[1] < len(a[0]) else NONE
        if name == "re_fullmatch":
            return self.table(a[0]).fullmatch(a[1]) is not None
        if name == "grammar_char_allowed":
            return bool(self.g.char_allowed(a[0])) if a[0] is not NONE and len(a[0]) == 1 else False
        if name == "Token_is_numeric":
            return Token(a[0], grammar=self.g).is_numeric()
        if name == "Token_is_datetime":
            return Token(a[0], grammar=self.g, decoder=self.d).is_datetime()
        if name == "str_lower":
            return a[0].lower()
        raise KeyError(name)

    def ev(self, e):
        if z3.is_quantifier(e):
            raise KeyError("quantifier")
        if z3.is_int_value(e):
            return e.as_long()
        if z3.is_true(e):
            return True
        if z3.is_false(e):
            return False
        k = e.decl().kind()
        ch = e.children()
        if k == z3.Z3_OP_UNINTERPRETED:
            if not ch:
                return self.const(e.decl().name())
            return self.app(e.decl().name(), [self.ev(c) for c in ch])
        if k == z3.Z3_OP_AND:
            return all(self.ev(c) for c in ch)
        if k == z3.Z3_OP_OR:
            return any(self.ev(c) for c in ch)
        if k == z3.Z3_OP_NOT:
            return not self.ev(ch[0])
        if k == z3.Z3_OP_IMPLIES:
            return (not self.ev(ch[0])) or self.ev(ch[1])
        if k == z3.Z3_OP_ITE:
            return self.ev(ch[1]) if self.ev(ch[0]) else self.ev(ch[2])
        if k in (z3.Z3_OP_EQ, z3.Z3_OP_IFF):
            return self.ev(ch[0]) == self.ev(ch[1])
        if k == z3.Z3_OP_DISTINCT:
            vs = [self.ev(c) for c in ch]
            return len(set(vs)) == len(vs)
        if k == z3.Z3_OP_ADD:
            return sum(self.ev(c) for c in ch)
        if k == z3.Z3_OP_SUB:
            vs = [self.ev(c) for c in ch]
            return vs[0] - sum(vs[1:])
        if k == z3.Z3_OP_UMINUS:
            return -self.ev(ch[0])
        if k == z3.Z3_OP_LE:
            return self.ev(ch[0]) <= self.ev(ch[1])
        if k == z3.Z3_OP_LT:
            return self.ev(ch[0]) < self.ev(ch[1])
        if k == z3.Z3_OP_GE:
            return self.ev(ch[0]) >= self.ev(ch[1])
        if k == z3.Z3_OP_GT:
            return self.ev(ch[0]) > self.ev(ch[1])
        raise KeyError(f"op {e.decl().name()}")


class Binder:
    """engine values over named constants + the environment that interprets them"""

    def __init__(self):
        self.env = {}
        self.n = 0

    def name(self, base):
        self.n += 1
        return f"rt_{base}_{self.n}"

    def string(self, base, v):
        nm = self.name(base)
        self.env[nm] = v
        return Z("str", z3.Const(nm, O.S))

    def integer(self, base, v):
        nm = self.name(base)
        self.env[nm] = v
        return Z("int", z3.Const(nm, z3.IntSort()))

    def boolean(self, base, v):
        nm = self.name(base)
        self.env[nm] = v
        return Z("bool", z3.Const(nm, z3.BoolSort()))

    def optchar(self, base, v):
        a, b = self.name(base + "_none"), self.name(base)
        self.env[a] = v is None
        self.env[b] = NONE if v is None else v
        return T.optstr(z3.Const(a, z3.BoolSort()), z3.Const(b, O.S))

    def preserve(self, base, d):
        s, n, e = self.name(base + "_state"), self.name(base + "_end_none"), self.name(base + "_end")
        st = d["state"]
        self.env[s] = st.value if hasattr(st, "value") else st
        self.env[n] = d["end"] is None
        self.env[e] = NONE if d["end"] is None else d["end"]
        return T.rec(z3.Const(s, z3.IntSort()), z3.Const(n, z3.BoolSort()), z3.Const(e, O.S))


def domain(fn_name, g, d, c_info, rnd, limit):
    """concrete argument tuples for one helper (small alphabet around the delimiters)"""
    import pvl.lexer as L
    from pvl.token import Token
    P = L.Preserve
    chars = ["/", "*", "#", " ", "\n", "a", '"', "'", "<", ">", "e", "E", "+", "-", "2", "=", "\t"]
    opt = chars[:8] + [None]
    lexemes = ["", "a", "16", "+2", "/*", "/* x", "# x", '"a', "<m", "1e", "1.5E", "12:00", "2001-001T12:00", "-"]
    pres = [dict(state=P.FALSE, end=None), dict(state=P.COMMENT, end="*/"), dict(state=P.COMMENT, end="\n"),
            dict(state=P.QUOTE, end='"'), dict(state=P.QUOTE, end="'"), dict(state=P.UNIT, end=">"),
            dict(state=P.NONDECIMAL, end="#")]
    if fn_name == "lex_preserve":
        it = itertools.product(chars, lexemes[:6], pres)
    elif fn_name == "lex_singlechar_comments":
        it = itertools.product(chars, lexemes[:6], pres, [{"#": "\n"}, {}, {"#": "\n", "%": "\n"}])
    elif fn_name == "lex_multichar_comments":
        it = itertools.product(chars[:8], opt, opt, lexemes[:6], pres[:4], [(("/*", "*/"),), (), (("/*", "*/"), ("|*", "*|"))])
    elif fn_name == "lex_comment":
        it = itertools.product(chars[:8], opt, opt, lexemes[:6], pres[:4], [c_info])
    elif fn_name == "lex_char":
        it = itertools.product(chars, opt, opt, lexemes[:9], pres + [dict(state=99, end=None)], [g], [c_info])
    elif fn_name == "lex_continue":
        it = ((c, n, lx, Token(lx, grammar=g, decoder=d), p, g)
              for c, n, lx, p in itertools.product(chars, chars + [None], lexemes[1:], pres[:2] + pres[3:4]))
    elif fn_name in ("_prev_char", "_next_char"):
        it = itertools.product(["", "a", "ab", "a/*"], range(0, 5))
    else:
        return []
    allv = list(it)
    if len(allv) > limit:
        allv = rnd.sample(allv, limit)
    return allv


def bind(fn_name, args, b):
    """-> (contract arg dict, tables) for the concrete argument tuple"""
    tables = {}
    if fn_name in ("_prev_char", "_next_char"):
        return {"s": b.string("s", args[0]), "idx": b.integer("idx", args[1])}, tables
    if fn_name == "lex_preserve":
        c, lx, p = args
        return {"char": b.string("char", c), "lexeme": b.string("lexeme", lx), "preserve": b.preserve("p", p)}, tables
    if fn_name == "lex_singlechar_comments":
        c, lx, p, m = args
        tables["param:comments"] = m
        return {"char": b.string("char", c), "lexeme": b.string("lexeme", lx), "preserve": b.preserve("p", p),
                "comments": ObjV("strmap", info={"id": T.tid("param:comments")})}, tables
    if fn_name == "lex_multichar_comments":
        c, pc, nc, lx, p, m = args
        tables["param:comments"] = m
        return {"char": b.string("char", c), "prev_char": b.optchar("prev", pc), "next_char": b.optchar("next", nc),
                "lexeme": b.string("lexeme", lx), "preserve": b.preserve("p", p),
                "comments": ObjV("pairs", info={"id": T.tid("param:comments")})}, tables
    if fn_name == "lex_comment":
        c, pc, nc, lx, p, ci = args
        return {"char": b.string("char", c), "prev_char": b.optchar("prev", pc), "next_char": b.optchar("next", nc),
                "lexeme": b.string("lexeme", lx), "preserve": b.preserve("p", p), "c_info": ObjV("cinfo")}, tables
    if fn_name == "lex_char":
        c, pc, nc, lx, p, g, ci = args
        return {"char": b.string("char", c), "prev_char": b.optchar("prev", pc), "next_char": b.optchar("next", nc),
                "lexeme": b.string("lexeme", lx), "preserve": b.preserve("p", p), "g": ObjV("grammar"),
                "c_info": ObjV("cinfo")}, tables
    if fn_name == "lex_continue":
        c, nc, lx, tok, p, g = args
        tx = b.name("token_text")
        b.env[tx] = str(tok)
        return {"char": b.string("char", c), "next_char": b.optchar("next", nc), "lexeme": b.string("lexeme", lx),
                "token": ObjV("token", info={"text": z3.Const(tx, O.S)}), "preserve": b.preserve("p", p),
                "g": ObjV("grammar")}, tables
    raise KeyError(fn_name)


def bind_result(res_kind, value, b):
    if res_kind == "lexstep":
        return TupV([b.string("out", value[0]), b.preserve("q", value[1])])
    if res_kind == "optchar":
        return b.optchar("res", value)
    if res_kind == "bool":
        return b.boolean("res", bool(value))
    raise KeyError(res_kind)


def check_call(contract, fn, fn_name, args, g, d, c_info):
    """-> None or (description, data) if the native call violates the contract"""
    import copy
    b = Binder()
    a, tables = bind(fn_name, args, b)
    call_args = copy.deepcopy(args) if fn_name not in ("lex_char", "lex_continue", "lex_comment") else args
    exc = None
    try:
        value = fn(*call_args)
    except Exception as e:     # noqa
        exc = e
    ip = Interp(g, d, c_info, b.env, tables)
    for nm, f in contract.requires(None, a):
        if not ip.ev(f):
            return None           # outside the precondition
    shown = tuple(repr(x) if not isinstance(x, (str, int, dict, tuple, type(None))) else x for x in args)
    if exc is not None:
        kind = type(exc).__name__
        ex = contract.exit_for(kind)
        if ex is None:
            return f"{fn_name}{shown!r} raised {kind}, which the contract does not permit", {"raised": kind}
        if ex.when is not None and not ip.ev(ex.when(None, a)):
            return f"{fn_name}{shown!r} raised {kind} outside the condition the contract gives for it", {"raised": kind}
        return None
    ex = contract.exit_for("return")
    if ex.when is not None and not ip.ev(ex.when(None, a)):
        return f"{fn_name}{shown!r} returned {value!r} where the contract requires an exception", {"returned": repr(value)}
    try:
        r = bind_result(ex.res, value, b)
    except Exception:
        return f"{fn_name}{shown!r} returned {value!r}: not a value of kind {ex.res}", {"returned": repr(value)}
    ip = Interp(g, d, c_info, b.env, tables)
    for nm, f in ex.post(None, None, a, r):
        if not ip.ev(f):
            return (f"{fn_name}{shown!r} returned {value!r}, violating the contract clause '{nm}'",
                    {"returned": repr(value), "clause": nm})
    return None
