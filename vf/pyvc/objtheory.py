"""T_str / object fields: strings as z3 strings with axiomatised builtins (count, rfind, find are
uninterpreted functions of their arguments — the obligations pin down *which* arguments the
code passes), instance fields of `self`, opaque message strings.  Base of the token-stream
theory used for the parser."""
import ast

import z3

from .core import (Conc, Z, TupV, ExcV, ObjV, BoundM, FuncV, OPAQUE_STR, OpaqueStr, PyRaise,
                   Untranslatable, PathEnd, fresh, EXC_BASES)
from .theory import BaseTheory

S = z3.DeclareSort("Str")         # strings are uninterpreted values: no string theory in any VC
I = z3.IntSort()
B = z3.BoolSort()

strlen = z3.Function("str_len", S, I)
strcat = z3.Function("str_concat", S, S, S)
litid = z3.Function("literal_id", S, I)
cnt = z3.Function("str_count", S, S, I, I, I)        # doc.count(sub, start, end)
rfind = z3.Function("str_rfind", S, S, I, I, I)      # doc.rfind(sub, start, end)
find = z3.Function("str_find", S, S, I, I)           # doc.find(sub, start)
casefold = z3.Function("str_casefold", S, S)
prefixof = z3.Function("str_startswith", S, S, B)
suffixof = z3.Function("str_endswith", S, S, B)
_LITS = {}


def lit(text):
    """The constant standing for a string literal (distinct literals are distinct values)."""
    if text not in _LITS:
        _LITS[text] = (z3.Const(f"lit_{len(_LITS)}", S), len(_LITS))
    return _LITS[text][0]


def lit_facts():
    return [litid(c) == k for c, k in _LITS.values()] + [strlen(c) == len(t) for t, (c, k) in _LITS.items()]


def sval(v):
    if isinstance(v, Conc) and isinstance(v.v, str):
        return lit(v.v)
    if isinstance(v, Z) and v.kind in ("str", "tok"):
        return v.t
    return None


class ObjTheory(BaseTheory):
    name = "T_str"

    def axioms(self):
        x = z3.Const("sx", S)
        return [z3.ForAll([x], strlen(x) >= 0, patterns=[strlen(x)])]

    def expand(self, formulas, lazies):
        return lit_facts()

    def fresh_of_kind(self, kind, nm):
        if kind == "str":
            return Z("str", fresh(nm, S))
        return super().fresh_of_kind(kind, nm)

    def make_self(self, ex, fv):
        return ObjV("self", cls=fv.cls_name, info={"oid": "self"})

    def view(self, snap, recv):
        return snap

    # ---- fields -----------------------------------------------------------------
    def field(self, ex, recv, attr):
        key = f"{recv.info.get('oid', recv.role)}.{attr}"
        if key in ex.st.th:
            return ex.st.th[key]
        v = self.initial_field(ex, recv, attr)
        if v is None:
            ex.oblige(f"{ex.fv.qual}:field-initialised-before-read:{attr}", False)
            raise PathEnd()
        ex.st.th[key] = v
        return v

    def initial_field(self, ex, recv, attr):
        return None

    def setattr(self, ex, recv, attr, v):
        if isinstance(recv, ObjV):
            ex.st.th[f"{recv.info.get('oid', recv.role)}.{attr}"] = v
            ex.st.ghost.setdefault("stores", []).append((recv.info.get("oid", recv.role), attr))
            return
        raise Untranslatable(f"store to {recv!r}.{attr}")

    def getattr(self, ex, recv, attr):
        if isinstance(recv, ObjV) and recv.role == "super" and self.program is not None:
            dcls, node = self.program.find_method(recv.cls, attr, recv.info.get("after"))
            if node is None:
                return BoundM(recv, attr)          # a builtin base class method
        if isinstance(recv, (Z, OpaqueStr)) or (isinstance(recv, Conc) and isinstance(recv.v, str)):
            return BoundM(recv, attr)
        return super().getattr(ex, recv, attr)

    def global_name(self, ex, name):
        if name in ("len", "str", "isinstance", "super", "firstpos", "linecount", "int", "ord", "next", "sorted",
                    "tuple", "list", "frozenset", "set", "type", "hasattr", "getattr", "callable", "iter", "any", "all"):
            return FuncV(name)
        return None

    # ---- strings ------------------------------------------------------------------
    def truth(self, ex, v):
        if isinstance(v, OpaqueStr):
            raise Untranslatable("truth of an opaque message string")
        if isinstance(v, Z) and v.kind in ("str", "tok"):
            return strlen(v.t) > 0
        return super().truth(ex, v)

    def getslice(self, ex, recv, lo, hi):
        if isinstance(recv, (OpaqueStr,)) or sval(recv) is not None:
            return OPAQUE_STR                      # only used to build messages
        raise Untranslatable("slice")

    def getitem(self, ex, recv, idx):
        if isinstance(recv, OpaqueStr):
            return OPAQUE_STR
        s = sval(recv)
        i = ex.as_int(idx)
        if s is not None and i is not None and not isinstance(recv, Conc):
            # text[i]: IndexError outside [-len, len); the character itself is only used to build messages
            n = strlen(s)
            if ex.branch(z3.And(i < n, i >= -n), "index-in-range"):
                return OPAQUE_STR
            raise PyRaise(ExcV("IndexError"))
        return super().getitem(ex, recv, idx)

    def binop(self, ex, op, a, b):
        sa, sb = sval(a), sval(b)
        if isinstance(op, ast.Add) and sa is not None and sb is not None:
            return Z("str", strcat(sa, sb))
        return super().binop(ex, op, a, b)

    def eq(self, ex, a, b):
        if isinstance(a, OpaqueStr) or isinstance(b, OpaqueStr):
            return fresh("opaque_text_equal", B)        # the content of a message string is unknown: either outcome
        sa, sb = sval(a), sval(b)
        if sa is not None and sb is not None:
            if isinstance(a, Conc) and isinstance(b, Conc):
                return a.v == b.v
            return sa == sb
        if (sa is not None and isinstance(b, Conc) and b.v is None) or (sb is not None and isinstance(a, Conc) and a.v is None):
            return False
        return super().eq(ex, a, b)

    def is_none(self, ex, a):
        if isinstance(a, Conc):
            return a.v is None
        if isinstance(a, (Z, ObjV, TupV, ExcV, OpaqueStr)):
            return False
        return False

    def call_method(self, ex, recv, name, args, kwargs):
        if isinstance(recv, ObjV) and recv.role == "super":
            c = self.lookup_method_contract(recv.cls, name, recv.info.get("after")) if self.program else None
            if c is None:
                dcls, node = self.program.find_method(recv.cls, name, recv.info.get("after"))
                if node is None:
                    return Conc(None)              # builtin base (Exception.__init__ ...): no effect on the model
        if isinstance(recv, OpaqueStr):
            return OPAQUE_STR
        s = sval(recv)
        if s is not None:
            if name == "count":
                sub = sval(args[0])
                lo = ex.as_int(args[1]) if len(args) > 1 else z3.IntVal(0)
                hi = ex.as_int(args[2]) if len(args) > 2 else strlen(s)
                return Z("int", cnt(s, sub, lo, hi))
            if name == "rfind":
                sub = sval(args[0])
                lo = ex.as_int(args[1]) if len(args) > 1 else z3.IntVal(0)
                hi = ex.as_int(args[2]) if len(args) > 2 else strlen(s)
                return Z("int", rfind(s, sub, lo, hi))
            if name == "find":
                sub = sval(args[0])
                lo = ex.as_int(args[1]) if len(args) > 1 else z3.IntVal(0)
                return Z("int", find(s, sub, lo))
            if name == "casefold":
                return Z("str", casefold(s))
            if name in ("split", "join", "format", "strip", "upper", "lower"):
                return OPAQUE_STR
            if name == "startswith" and sval(args[0]) is not None:
                return Z("bool", prefixof(s, sval(args[0])))
            if name == "endswith" and sval(args[0]) is not None:
                return Z("bool", suffixof(s, sval(args[0])))
        return super().call_method(ex, recv, name, args, kwargs)

    # any(<generator expression>) / all(...):
    #  - over a tuple / list display (or a local bound to one): evaluated element by element with Python's short circuit
    #  - where nothing is known about the iterated collection: either outcome
    def comprehension(self, ex, node):
        if isinstance(node, ast.GeneratorExp):
            if len(node.generators) == 1 and not node.generators[0].is_async:
                try:
                    itv = ex.expr(node.generators[0].iter)
                except Untranslatable:
                    itv = None
                items = itv.items if isinstance(itv, TupV) else (
                    [Conc(x) for x in itv.v] if isinstance(itv, Conc) and isinstance(itv.v, (tuple, list)) else None)
                if items is not None:
                    return ObjV("lazy-gen", info={"node": node, "items": list(items)})
            return ObjV("opaque-gen", info={"src": ast.unparse(node)})
        return super().comprehension(ex, node)

    def _short_circuit(self, ex, gen, stop_on):
        """any (stop_on=True) / all (stop_on=False) of a generator expression over known items, element by element"""
        node = gen.info["node"]
        g = node.generators[0]
        saved = dict(ex.env)
        try:
            for x in gen.info["items"]:
                ex.assign(g.target, x)
                if not all(ex.branch(ex.truth(ex.expr(c)), f"genexp-if@{node.lineno}") for c in g.ifs):
                    continue
                if ex.branch(ex.truth(ex.expr(node.elt)), f"genexp@{node.lineno}") == stop_on:
                    return Conc(stop_on)
            return Conc(not stop_on)
        finally:
            ex.env.clear()
            ex.env.update(saved)

    def b_any(self, ex, args, kwargs):
        if len(args) == 1 and isinstance(args[0], ObjV) and args[0].role == "lazy-gen":
            return self._short_circuit(ex, args[0], True)
        if len(args) == 1 and isinstance(args[0], ObjV) and args[0].role in ("opaque-gen", "opaque-coll"):
            return Z("bool", fresh("any_of_unknown_collection", B))
        raise Untranslatable("any(...)")

    def b_all(self, ex, args, kwargs):
        if len(args) == 1 and isinstance(args[0], ObjV) and args[0].role == "lazy-gen":
            return self._short_circuit(ex, args[0], False)
        if len(args) == 1 and isinstance(args[0], ObjV) and args[0].role in ("opaque-gen", "opaque-coll"):
            return Z("bool", fresh("all_of_unknown_collection", B))
        raise Untranslatable("all(...)")

    def b_len(self, ex, args, kwargs):
        (v,) = args
        s = sval(v)
        if s is not None and not isinstance(v, Conc):
            return Z("int", strlen(s))
        return super().b_len(ex, args, kwargs)

    def result_conforms(self, ex, res_kind, v):
        if res_kind == "str" and (isinstance(v, OpaqueStr) or sval(v) is not None):
            return True
        return super().result_conforms(ex, res_kind, v)
