"""T_enc: theory for the quoting / dispatch functions of pvl/encoder.py and the table-search
predicates of pvl/token.py.

Extends T_lex (uninterpreted strings, grammar tables as uninterpreted finite sets).  New:
* Python values of unknown type (`pyval`): isinstance tests are uninterpreted type predicates of
  the value (bool => numeric is the only relation assumed), `str(value)` an uninterpreted text;
* instance fields of the encoder (grammar, decoder, width, numeric_types, ...);
* Token objects remember which grammar / decoder objects they were built with;
* *search loops* `for x in TABLE: if P(x): return/raise`: the body is executed for an arbitrary
  member; when it falls through, the contract's fall-through fact J(x) is an obligation; after
  the loop the contract's exit fact E is assumed, and `(forall x in TABLE. J(x)) => E` is an
  obligation of its own (E is the universal closure of J by the definitional axioms)."""
import ast

import z3

from .core import (Conc, Z, TupV, ExcV, ObjV, BoundM, FuncV, OPAQUE_STR, OpaqueStr, PyRaise,
                   Untranslatable, PathEnd, fresh, _Break, _Continue)
from .objtheory import sval, S, I, B, strlen, strcat, lit, casefold
from .objtheory import prefixof, suffixof
from .lextheory import LexTheory, set_has, sub_in, tid, optstr, pairs_has, allowed
from .tables import char_of, elem_of, rec_has, zip_has, flat_has, assigned_in

R = z3.RealSort()
anychar_in = z3.Function("any_char_of_text_in_table", I, S, B)      # any(c in TABLE for c in s)
cf_in = z3.Function("casefold_equal_to_a_member", I, S, B)           # exists x in TABLE: x.casefold() == y
sub_any = z3.Function("some_member_is_substring", I, S, B)           # exists x in TABLE: x in s
tok_pred = z3.Function("Token_predicate", I, I, S, B)                # (predicate id, configuration id, text)
ident_ok = z3.Function("decoder_is_identifier", S, B)
printable = z3.Function("str_isprintable", S, B)
pair_part_in = z3.Function("some_pair_has_a_part_in_text", I, S, B)   # exists (a,b) in PAIRS: a in s or b in s
comment_match = z3.Function("some_pair_delimits_text", I, S, B)       # exists (a,b): s starts with a and (ends with b or b is NL and no NL in s)
pp_a = z3.Function("pair_part_witness_open", I, S, S)
pp_b = z3.Function("pair_part_witness_close", I, S, S)
cmw_a = z3.Function("comment_witness_open", I, S, S)
cmw_b = z3.Function("comment_witness_close", I, S, S)
all_chars_ident = z3.Function("all_characters_are_identifier_characters", S, B)
bad_char = z3.Function("non_identifier_character_witness", S, S)
ascii_ok = z3.Function("encodes_as_ascii", S, B)
all_chars_allowed = z3.Function("all_characters_allowed_by_the_grammar", S, B)
bad_allowed = z3.Function("disallowed_character_witness", S, S)
pylen = z3.Function("len_of_value", I, I)
scalar_ok = z3.Function("is_scalar", I, B)                           # self.is_scalar(value)
inner_ok = z3.Function("inner_elements_are_scalars", I, B)           # every element of the list is a scalar and not a list
elems_ok = z3.Function("elements_are_scalars_or_lists_of_scalars", I, B)
inner_wit = z3.Function("inner_element_witness", I, I)
elems_wit = z3.Function("element_witness", I, I)
inst_of = z3.Function("isinstance_of_quantity_class", I, I, B)       # (value id, record id)
mag_id = z3.Function("magnitude_of", I, I, I)                        # getattr(value, record.value_prop)
is_quantity = z3.Function("is_instance_of_a_registered_quantity_class", I, B)
units_number = z3.Function("is_a_quantity_whose_magnitude_is_a_number", I, B)
q_wit = z3.Function("quantity_class_witness", I, I)
f_ok = z3.Function("function_returns_on", I, I, B)                   # function(a, b) returns (else it raises `exception`)
f_res = z3.Function("function_result_on", I, I, I)
any_ok = z3.Function("function_returns_on_some_tuple", B)
is_ok_result = z3.Function("is_the_result_on_an_accepted_tuple", I, B)
ok_wit_a = z3.Const("accepted_tuple_witness_a", I)
ok_wit_b = z3.Const("accepted_tuple_witness_b", I)
ljust_fn = z3.Function("str_ljust", S, I, S)
cf_in_flat = z3.Function("casefold_equal_to_a_part_of_some_pair", I, S, B)
cff_wit = z3.Function("casefold_pair_part_witness", I, S, S)
first_of = z3.Function("first_item_of_table", I, S)
fmt_fn = z3.Function("encoder_format", S, I, S)                      # self.format(text, level)
module_text = z3.Function("encode_module_text", I, I, S)             # self.encode_module(value, level)
assign_ok = z3.Function("is_assignment_statement", S, B)
tail1 = z3.Function("text_without_first_character", S, S)
anychar_wit = z3.Function("character_in_table_witness", I, S, S)
cf_wit = z3.Function("casefold_witness", I, S, S)
sub_wit = z3.Function("substring_witness", I, S, S)
str_of = z3.Function("str_of_value", I, S)                            # str(value)
type_is = z3.Function("isinstance_of", I, I, B)                      # (value id, type id)

PRED = {}
TYPES = {}


def pred_id(name):
    PRED.setdefault(name, len(PRED) + 1)
    return z3.IntVal(PRED[name])


def type_id(name):
    TYPES.setdefault(name, len(TYPES) + 1)
    return z3.IntVal(TYPES[name])


CONFIGURED = z3.IntVal(1)        # Token(..., grammar=self.grammar, decoder=self.decoder)


def _cm(t, a, b):
    nl = lit("\n")
    return z3.And(prefixof(t, a), z3.Or(suffixof(t, b), z3.And(b == nl, z3.Not(sub_in(nl, t)))))


def _inner_j(u):
    return z3.And(z3.Not(type_is(u, type_id("list"))), scalar_ok(u))


def _outer_j(u):
    return z3.If(type_is(u, type_id("list")), inner_ok(u), scalar_ok(u))


def _identchar(c):
    return z3.Or(z3.Function("str_isalpha", S, B)(c), z3.Function("str_isdigit", S, B)(c), c == lit("_"))


def gconst(name):
    return z3.Const("grammar_" + name, S)


class EncTheory(LexTheory):
    name = "T_enc"
    feasible_axioms = False
    candidate_models = True

    def axioms(self):
        x, y, w = z3.Consts("ex ey ew", S)
        k = z3.Const("ek", I)
        v = z3.Const("ev", I)
        u = z3.Const("eu", I)
        empty = lit("")
        return super().axioms() + [
            z3.ForAll([x], strcat(empty, x) == x, patterns=[strcat(empty, x)]),
            z3.ForAll([x], strcat(x, empty) == x, patterns=[strcat(x, empty)]),
            z3.ForAll([x], (strlen(x) == 0) == (x == empty), patterns=[strlen(x)]),
            # definitions of the three table-search predicates (used for the forall-closure obligations)
            z3.ForAll([k, x, y], z3.Implies(z3.And(set_has(k, x), casefold(x) == y), cf_in(k, y)),
                      patterns=[z3.MultiPattern(set_has(k, x), cf_in(k, y))]),
            z3.ForAll([k, x, y], z3.Implies(z3.And(set_has(k, x), sub_in(x, y)), sub_any(k, y)),
                      patterns=[z3.MultiPattern(set_has(k, x), sub_any(k, y))]),
            z3.ForAll([k, y], z3.Implies(cf_in(k, y), z3.And(set_has(k, cf_wit(k, y)), casefold(cf_wit(k, y)) == y)),
                      patterns=[cf_in(k, y)]),
            z3.ForAll([k, y], z3.Implies(sub_any(k, y), z3.And(set_has(k, sub_wit(k, y)), sub_in(sub_wit(k, y), y))),
                      patterns=[sub_any(k, y)]),
            z3.ForAll([k, x, y, w], z3.Implies(z3.And(pairs_has(k, x, w), z3.Or(sub_in(x, y), sub_in(w, y))), pair_part_in(k, y)),
                      patterns=[z3.MultiPattern(pairs_has(k, x, w), pair_part_in(k, y))]),
            z3.ForAll([k, y], z3.Implies(pair_part_in(k, y), z3.And(
                pairs_has(k, pp_a(k, y), pp_b(k, y)), flat_has(k, pp_a(k, y)), flat_has(k, pp_b(k, y)),
                z3.Or(sub_in(pp_a(k, y), y), sub_in(pp_b(k, y), y)))),
                patterns=[pair_part_in(k, y)]),
            z3.ForAll([k, x, y, w], z3.Implies(z3.And(pairs_has(k, x, w), _cm(y, x, w)), comment_match(k, y)),
                      patterns=[z3.MultiPattern(pairs_has(k, x, w), comment_match(k, y))]),
            z3.ForAll([k, y], z3.Implies(comment_match(k, y), z3.And(
                pairs_has(k, cmw_a(k, y), cmw_b(k, y)), _cm(y, cmw_a(k, y), cmw_b(k, y)))),
                patterns=[comment_match(k, y)]),
            # all_chars_ident(s) <=> every character c of s has isalpha(c) or isdigit(c) or c == "_"
            z3.ForAll([x, y], z3.Implies(z3.And(all_chars_ident(y), char_of(x, y)), _identchar(x)),
                      patterns=[z3.MultiPattern(all_chars_ident(y), char_of(x, y))]),
            z3.ForAll([y], z3.Implies(z3.Not(all_chars_ident(y)), z3.And(char_of(bad_char(y), y), z3.Not(_identchar(bad_char(y))))),
                      patterns=[all_chars_ident(y)]),
            z3.ForAll([x, y], z3.Implies(z3.And(all_chars_allowed(y), char_of(x, y)), allowed(x)),
                      patterns=[z3.MultiPattern(all_chars_allowed(y), char_of(x, y))]),
            z3.ForAll([y], z3.Implies(z3.Not(all_chars_allowed(y)), z3.And(char_of(bad_allowed(y), y), z3.Not(allowed(bad_allowed(y))))),
                      patterns=[all_chars_allowed(y)]),
            z3.ForAll([v, u], z3.Implies(z3.And(rec_has(u), inst_of(v, u)), is_quantity(v)), patterns=[z3.MultiPattern(rec_has(u), inst_of(v, u))]),
            z3.ForAll([v], z3.Implies(is_quantity(v), z3.And(rec_has(q_wit(v)), inst_of(v, q_wit(v)))), patterns=[is_quantity(v)]),
            z3.ForAll([v, u], z3.Implies(z3.And(rec_has(u), inst_of(v, u), type_is(mag_id(v, u), type_id("self.numeric_types")),
                                                z3.Not(type_is(mag_id(v, u), type_id("bool")))), units_number(v)),
                      patterns=[z3.MultiPattern(rec_has(u), inst_of(v, u))]),
            z3.ForAll([k, x, w], z3.Implies(pairs_has(k, x, w), z3.And(flat_has(k, x), flat_has(k, w))), patterns=[pairs_has(k, x, w)]),
            z3.ForAll([k, x, y], z3.Implies(z3.And(flat_has(k, x), sub_in(x, y)), pair_part_in(k, y)),
                      patterns=[z3.MultiPattern(flat_has(k, x), pair_part_in(k, y))]),
            z3.ForAll([k, x, y], z3.Implies(z3.And(flat_has(k, x), casefold(x) == y), cf_in_flat(k, y)),
                      patterns=[z3.MultiPattern(flat_has(k, x), cf_in_flat(k, y))]),
            z3.ForAll([k, y], z3.Implies(cf_in_flat(k, y), z3.And(flat_has(k, cff_wit(k, y)), casefold(cff_wit(k, y)) == y)),
                      patterns=[cf_in_flat(k, y)]),
            z3.ForAll([v, u], z3.Implies(z3.And(zip_has(v, u), f_ok(v, u)), z3.And(any_ok(), is_ok_result(f_res(v, u)))),
                      patterns=[z3.MultiPattern(zip_has(v, u), f_ok(v, u))]),
            z3.Implies(any_ok(), z3.And(zip_has(ok_wit_a, ok_wit_b), f_ok(ok_wit_a, ok_wit_b))),
            z3.ForAll([v, u], z3.Implies(elem_of(u, v), pylen(v) > 0), patterns=[elem_of(u, v)]),
            z3.ForAll([v], pylen(v) >= 0, patterns=[pylen(v)]),
            z3.ForAll([v, u], z3.Implies(z3.And(inner_ok(v), elem_of(u, v)), _inner_j(u)), patterns=[z3.MultiPattern(inner_ok(v), elem_of(u, v))]),
            z3.ForAll([v], z3.Implies(z3.Not(inner_ok(v)), z3.And(elem_of(inner_wit(v), v), z3.Not(_inner_j(inner_wit(v))))),
                      patterns=[inner_ok(v)]),
            z3.ForAll([v, u], z3.Implies(z3.And(elems_ok(v), elem_of(u, v)), _outer_j(u)), patterns=[z3.MultiPattern(elems_ok(v), elem_of(u, v))]),
            z3.ForAll([v], z3.Implies(z3.Not(elems_ok(v)), z3.And(elem_of(elems_wit(v), v), z3.Not(_outer_j(elems_wit(v))))),
                      patterns=[elems_ok(v)]),
            z3.ForAll([x, y], z3.Implies(char_of(x, y), strlen(x) == 1), patterns=[char_of(x, y)]),
            # anychar_in(T, s) <=> some character of s is a member of T
            z3.ForAll([k, x, y], z3.Implies(z3.And(char_of(x, y), set_has(k, x)), anychar_in(k, y)),
                      patterns=[z3.MultiPattern(char_of(x, y), set_has(k, x), anychar_in(k, y))]),
            z3.ForAll([k, y], z3.Implies(anychar_in(k, y), z3.And(char_of(anychar_wit(k, y), y), strlen(anychar_wit(k, y)) == 1,
                                                                  set_has(k, anychar_wit(k, y)))), patterns=[anychar_in(k, y)]),
            z3.ForAll([v], z3.Implies(type_is(v, type_id("bool")), type_is(v, type_id("self.numeric_types"))),
                      patterns=[type_is(v, type_id("bool"))]),
        ]

    # ---- kinds ---------------------------------------------------------------------
    def fresh_of_kind(self, kind, nm):
        if kind == "callable":
            return FuncV("param:" + nm)
        if kind == "excclass":
            return FuncV("ValueError")
        if kind == "pyval":
            return ObjV("pyval", info={"id": fresh(nm + "_id", I)})
        return super().fresh_of_kind(kind, nm)

    def fresh_result(self, ex, res, label):
        if res == "truthy":
            return Z("bool", fresh("truthy_" + label, B))
        return super().fresh_result(ex, res, label)

    def result_conforms(self, ex, res_kind, v):
        if res_kind == "truthy":
            return (isinstance(v, Conc) and (v.v is None or isinstance(v.v, bool))) or (isinstance(v, Z) and v.kind == "bool")
        if res_kind == "str" and self.sv(v) is not None:
            return True
        return super().result_conforms(ex, res_kind, v)

    def coerce_result(self, ex, res_kind, v):
        if res_kind == "truthy" and isinstance(v, Conc):
            return Z("bool", z3.BoolVal(bool(v.v)))
        if res_kind == "str" and isinstance(v, Conc) and isinstance(v.v, str):
            return Z("str", lit(v.v))
        return super().coerce_result(ex, res_kind, v)

    def make_self(self, ex, fv):
        if fv.cls_name == "Token":
            return ObjV("self", cls="Token", info={"oid": "self", "text": fresh("token_text", S)})
        return ObjV("self", cls=fv.cls_name, info={"oid": "self"})

    def initial_field(self, ex, recv, attr):
        if recv.role == "self":
            if attr == "grammar":
                return ObjV("grammar", info={"owner": "self"})
            if attr == "decoder":
                return ObjV("decoder", info={"owner": "self"})
            if attr == "width":
                return Z("int", z3.Const("self_width", I))
            if attr in ("grpcls", "objcls"):
                return FuncV("self." + attr)
            if attr in ("symbol_single_quote", "end_delimiter", "aggregation_end"):
                return Z("bool", z3.Const("self_" + attr, B))
            if attr == "numeric_types":
                return FuncV("self.numeric_types")
            if attr == "quantities":
                return ObjV("records")
            if attr == "newline":
                return Z("str", z3.Const("self_newline", S))
        return None

    def global_name(self, ex, name):
        if name in ("set", "frozenset", "list", "bool", "str", "datetime", "any", "Token", "isinstance", "len", "super", "enumerate", "max", "abc", "getattr", "zip", "chain", "all"):
            return FuncV(name)
        return super().global_name(ex, name)

    def selftext(self, v):
        if isinstance(v, ObjV) and v.role == "self" and v.cls == "Token":
            return v.info["text"]
        return None

    def sv(self, v):
        t = self.selftext(v)
        return t if t is not None else sval(v)

    # ---- attributes ------------------------------------------------------------------
    def getattr(self, ex, recv, attr):
        if isinstance(recv, ObjV) and recv.role == "grammar":
            if attr in ("none_keyword", "true_keyword", "false_keyword"):
                return Z("str", gconst(attr))
            if attr == "quotes":
                return TupV([Z("str", gconst("quote1")), Z("str", gconst("quote2"))])
            if attr in ("group_pref_keywords", "object_pref_keywords"):
                return TupV([Z("str", gconst(attr + "_begin")), Z("str", gconst(attr + "_end"))])
            if attr in ("reserved_keywords", "format_effectors", "whitespace", "reserved_characters", "end_statements", "delimiters"):
                return ObjV("strset", info={"id": tid("g." + attr), "name": attr})
            if attr == "comments":
                return ObjV("pairs", info={"id": tid("g.comments")})
            if attr == "aggregation_keywords":
                return ObjV("kwmap", info={"id": tid("g.aggregation_keywords")})
        if isinstance(recv, ObjV) and recv.role == "record" and attr in ("cls", "value_prop", "units_prop"):
            return ObjV("recfield", info={"rec": recv.info["id"], "field": attr})
        if isinstance(recv, ObjV) and recv.role in ("decoder", "pyval", "kwmap", "pylist"):
            return BoundM(recv, attr)
        if isinstance(recv, FuncV) and recv.name in ("datetime", "abc", "chain"):
            return FuncV(recv.name + "." + attr)
        if isinstance(recv, ObjV) and recv.role == "self" and recv.cls == "Token" and attr in ("grammar", "decoder"):
            return ObjV(attr, info={"owner": "self"})
        if (isinstance(recv, ObjV) and recv.role == "self" and recv.cls == "Token" and hasattr(str, attr)
                and (self.program is None or self.program.find_method("Token", attr)[1] is None)):
            return BoundM(recv, attr)        # a method of str on the token text
        return super().getattr(ex, recv, attr)

    # ---- values ----------------------------------------------------------------------
    def is_none(self, ex, a):
        if isinstance(a, ObjV) and a.role == "pyval":
            return type_is(a.info["id"], type_id("NoneType"))
        return super().is_none(ex, a)

    def truth(self, ex, v):
        if isinstance(v, ObjV) and v.role == "pyval":
            return type_is(v.info["id"], type_id("truthy"))
        return super().truth(ex, v)

    def eq(self, ex, a, b):
        sa, sb = self.sv(a), self.sv(b)
        if sa is not None and sb is not None:
            if isinstance(a, Conc) and isinstance(b, Conc):
                return a.v == b.v
            return sa == sb
        return super().eq(ex, a, b)

    def contains(self, ex, container, item):
        sc, si = self.sv(container), self.sv(item)
        if sc is not None and si is not None:
            return sub_in(si, sc)
        if isinstance(container, ObjV) and container.role == "strset" and si is not None:
            return set_has(container.info["id"], si)
        return super().contains(ex, container, item)

    def isinstance_(self, ex, v, names):
        if isinstance(v, ObjV) and v.role == "pyval":
            return Z("bool", z3.Or(*[type_is(v.info["id"], type_id(n)) for n in names]))
        if sval(v) is not None:
            return Conc("str" in names)
        return super().isinstance_(ex, v, names)

    def getslice(self, ex, recv, lo, hi):
        t = self.sv(recv)
        if t is not None and isinstance(lo, Conc) and lo.v == 1 and hi is None:
            return Z("str", tail1(t))
        return super().getslice(ex, recv, lo, hi)

    def getitem(self, ex, recv, idx):
        if isinstance(recv, ObjV) and recv.role == "strset" and isinstance(idx, Conc) and isinstance(idx.v, int):
            if idx.v == 0:
                x = first_of(recv.info["id"])
            else:
                x = fresh("table_item", S)
            ex.st.assume(set_has(recv.info["id"], x))
            return Z("str", x)
        return super().getitem(ex, recv, idx)

    def b_chain_from_iterable(self, ex, args, kwargs):
        (v,) = args
        if isinstance(v, ObjV) and v.role == "pairs":
            return ObjV("flatpairs", info={"id": v.info["id"]})
        if isinstance(v, ObjV) and v.role == "strset" and str(v.info.get("name", "")).endswith(".items"):
            return ObjV("flatpairs", info={"id": v.info["id"]})
        raise Untranslatable("chain.from_iterable")

    def b_zip(self, ex, args, kwargs):
        if len(args) != 2:
            raise Untranslatable("zip of other than two iterables")
        return ObjV("ziptable")

    def b_getattr(self, ex, args, kwargs):
        v, nm = args[0], args[1]
        if (isinstance(v, ObjV) and v.role == "pyval" and isinstance(nm, ObjV) and nm.role == "recfield"
                and nm.info["field"] == "value_prop"):
            return ObjV("pyval", info={"id": mag_id(v.info["id"], nm.info["rec"])})
        raise Untranslatable("getattr")

    def b_isinstance(self, ex, args, kwargs):
        v, t = args
        if isinstance(t, ObjV) and t.role == "recfield" and t.info["field"] == "cls" and isinstance(v, ObjV) and v.role == "pyval":
            return Z("bool", inst_of(v.info["id"], t.info["rec"]))
        names = []
        for x in (t.items if isinstance(t, TupV) else [t]):
            if isinstance(x, FuncV):
                names.append(x.name)
            else:
                raise Untranslatable("isinstance class expr")
        return self.isinstance_(ex, v, names)

    def b_str(self, ex, args, kwargs):
        (v,) = args
        if isinstance(v, ObjV) and v.role == "pyval":
            return Z("str", str_of(v.info["id"]))
        t = self.sv(v)
        if t is not None:
            return Z("str", t)
        return super().b_str(ex, args, kwargs)

    def b_len(self, ex, args, kwargs):
        if isinstance(args[0], ObjV) and args[0].role == "pyval":
            return Z("int", pylen(args[0].info["id"]))
        t = self.sv(args[0])
        if t is not None and not isinstance(args[0], Conc):
            return Z("int", strlen(t))
        return super().b_len(ex, args, kwargs)

    def b_list(self, ex, args, kwargs):
        if args:
            raise Untranslatable("list(<arg>)")
        return ObjV("pylist", info={"items": []})       # a local list of texts (mutated in place; never aliased in the verified code)

    def b_enumerate(self, ex, args, kwargs):
        t = self.sv(args[0])
        if t is None:
            raise Untranslatable("enumerate(non-text)")
        return ObjV("enum-chars", info={"text": t})

    def binop(self, ex, op, a, b):
        if isinstance(op, ast.Div):
            ia, ib = ex.as_int(a), ex.as_int(b)
            if ia is not None and ib is not None:
                return Z("real", z3.ToReal(ia) / z3.ToReal(ib))
        sa, sb = self.sv(a), self.sv(b)
        if isinstance(op, ast.Add) and sa is not None and sb is not None:
            return Z("str", strcat(sa, sb))
        return super().binop(ex, op, a, b)

    def compare(self, ex, op, a, b):
        def real(v):
            if isinstance(v, Z) and v.kind == "real":
                return v.t
            i = ex.as_int(v)
            return z3.ToReal(i) if i is not None else None
        ra, rb = real(a), real(b)
        if ra is not None and rb is not None:
            f = {ast.Lt: lambda x, y: x < y, ast.LtE: lambda x, y: x <= y,
                 ast.Gt: lambda x, y: x > y, ast.GtE: lambda x, y: x >= y}[type(op)]
            return Z("bool", f(ra, rb))
        return super().compare(ex, op, a, b)

    def joined_str(self, ex, node):
        """an f-string made of texts only ({q}{s}{q}) is their concatenation; anything else is message text"""
        acc = None
        for v in node.values:
            if isinstance(v, ast.Constant):
                t = lit(v.value) if v.value else None
            elif v.format_spec is None and v.conversion == -1:
                try:
                    t = self.sv(ex.expr(v.value))
                except Untranslatable:
                    return OPAQUE_STR
                if t is None:
                    return OPAQUE_STR
            else:
                return OPAQUE_STR
            if t is not None:
                acc = t if acc is None else strcat(acc, t)
        return Z("str", acc if acc is not None else lit(""))

    def str_format(self, ex, template, arg_nodes):
        if template == "{} = " and len(arg_nodes) == 1:
            a = self.sv(ex.expr(arg_nodes[0]))
            if a is not None:
                return Z("str", strcat(a, lit(" = ")))
        if template == "{} = {}" and len(arg_nodes) == 2:
            a, b = [self.sv(ex.expr(x)) for x in arg_nodes]
            if a is not None and b is not None:
                return Z("str", strcat(strcat(a, lit(" = ")), b))
        return None

    def tuple_star_tail(self, ex, items, v):
        if isinstance(v, ObjV) and v.role == "strset":
            return ObjV("mixed-iter", info={"items": list(items), "rest": v})
        raise Untranslatable("starred non-tuple")

    # ---- calls -----------------------------------------------------------------------
    def call(self, ex, fv, args, kwargs, node):
        if isinstance(fv, FuncV) and fv.name == "param:function":
            a, b = args
            if ex.branch(f_ok(a.info["id"], b.info["id"]), "function-returns"):
                return ObjV("pyval", info={"id": f_res(a.info["id"], b.info["id"])})
            exc = ex.env.get("exception")
            raise PyRaise(ExcV(exc.name if isinstance(exc, FuncV) else "Exception"))
        if isinstance(fv, FuncV) and fv.name == "Token":
            t = self.sv(args[0])
            if t is None:
                raise Untranslatable("Token(...)")
            g, d = kwargs.get("grammar"), kwargs.get("decoder")
            configured = (isinstance(g, ObjV) and g.role == "grammar" and g.info.get("owner") == "self"
                          and isinstance(d, ObjV) and d.role == "decoder" and d.info.get("owner") == "self")
            cfg = CONFIGURED if configured else z3.IntVal(2 + (0 if g is None else 1) + (0 if d is None else 2))
            return ObjV("token", info={"text": t, "cfg": cfg})
        return super().call(ex, fv, args, kwargs, node)

    def call_method(self, ex, recv, name, args, kwargs):
        if isinstance(recv, ObjV) and recv.role == "token" and name.startswith("is_"):
            return Z("bool", tok_pred(pred_id(name), recv.info.get("cfg", CONFIGURED), recv.info["text"]))
        if isinstance(recv, ObjV) and recv.role == "decoder":
            if name == "is_identifier":
                t = self.sv(args[0])
                if t is None:
                    raise Untranslatable("is_identifier(non-str)")
                return Z("bool", ident_ok(t))
            if name.startswith("decode_"):
                t = self.sv(args[0])
                # decoder.decode_X(text): returns or raises ValueError, decided by the uninterpreted predicate
                if ex.branch(tok_pred(pred_id(name), CONFIGURED, t), name):
                    return ObjV("decoded")
                raise PyRaise(ExcV("ValueError"))
        if isinstance(recv, ObjV) and recv.role == "pylist" and name == "append":
            if self.sv(args[0]) is None:
                raise Untranslatable("append of a non-text")
            recv.info["items"].append(self.sv(args[0]))
            return Conc(None)
        if self.sv(recv) is not None and name == "join" and isinstance(args[0], ObjV) and args[0].role == "pylist":
            items = args[0].info["items"]
            if not items:
                return Z("str", lit(""))
            acc = items[0]
            for it in items[1:]:
                acc = strcat(strcat(acc, self.sv(recv)), it)
            return Z("str", acc)
        if isinstance(recv, ObjV) and recv.role == "kwmap" and name in ("keys", "values", "items"):
            return ObjV("strset", info={"id": tid("g.aggregation_keywords." + name), "name": "aggregation_keywords." + name})
        t = self.sv(recv)
        if (isinstance(recv, ObjV) and recv.role == "self" and self.program is not None
                and self.program.find_method(recv.cls, name)[1] is not None):
            return super().call_method(ex, recv, name, args, kwargs)
        if t is not None and name == "encode":
            enc = kwargs.get("encoding", args[0] if args else Conc("utf-8"))
            if isinstance(enc, Conc) and enc.v == "ascii":
                if ex.branch(ascii_ok(t), "encode-ascii"):
                    return ObjV("bytes")
                raise PyRaise(ExcV("UnicodeEncodeError"))
        if t is not None:
            if name == "startswith" and self.sv(args[0]) is not None:
                return Z("bool", prefixof(t, self.sv(args[0])))
            if name == "startswith" and isinstance(args[0], TupV) and all(self.sv(x) is not None for x in args[0].items):
                return Z("bool", z3.Or(*[prefixof(t, self.sv(x)) for x in args[0].items]))
            if name == "ljust" and len(args) == 1 and ex.as_int(args[0]) is not None:
                return Z("str", ljust_fn(t, ex.as_int(args[0])))
            if name == "endswith" and self.sv(args[0]) is not None:
                return Z("bool", suffixof(t, self.sv(args[0])))
            if name == "casefold":
                return Z("str", casefold(t))
            if name == "isprintable":
                return Z("bool", printable(t))
            if name.startswith("is") and not args:
                return Z("bool", z3.Function("str_" + name, S, B)(t))
            if name == "partition":
                return TupV([Z("str", fresh("part0", S)), Z("str", fresh("part1", S)), Z("str", fresh("part2", S))])
        return super().call_method(ex, recv, name, args, kwargs)

    # ---- loops -----------------------------------------------------------------------------
