"""T_time: theory for the encode_time methods of pvl/encoder.py (C14, C01).

A time value is a record of integer fields (hour, minute, second, microsecond) and an optional
zone whose offset is a real number of seconds.  f-strings evaluate to *formatted texts*: lists
of parts (a literal, a strftime rendering of the value's fields, an integer rendered with a
width, a string variable), so a postcondition can say which fields are written, with which
width, under which condition.  Arithmetic on the offset (abs, divmod, int, round, /) is real
/ integer arithmetic (floats treated as mathematical reals - listed as an assumption)."""
import ast

import z3

from .core import (Conc, Z, TupV, ExcV, ObjV, BoundM, FuncV, OPAQUE_STR, OpaqueStr, PyRaise,
                   Untranslatable, PathEnd, fresh)
from .objtheory import ObjTheory, S, I, B

R = z3.RealSort()
pyround = z3.Function("py_round", R, I)


def fmt(parts):
    return ObjV("fmt", info={"parts": list(parts)})


def parts_of(v):
    if isinstance(v, ObjV) and v.role == "fmt":
        return v.info["parts"]
    if isinstance(v, Conc) and isinstance(v.v, str):
        return [("lit", v.v)] if v.v else []
    if isinstance(v, Z) and v.kind == "signstr":
        return [("sign", v.t)]
    return None


def timeval(fields, tz_none, off, year=None):
    return ObjV("timeval", info={"fields": fields, "tz_none": tz_none, "off": off,
                                 "year": year if year is not None else z3.Const("value_year", I)})


def real_of(ex, v):
    if isinstance(v, Z) and v.kind == "real":
        return v.t
    i = ex.as_int(v)
    if i is not None:
        return z3.ToReal(i)
    return None


class TimeTheory(ObjTheory):
    name = "T_time"
    feasible_axioms = False
    candidate_models = True

    def axioms(self):
        x = z3.Const("rx", R)
        return super().axioms() + [
            z3.ForAll([x], z3.And(2 * (z3.ToReal(pyround(x)) - x) <= 1, 2 * (x - z3.ToReal(pyround(x))) <= 1),
                      patterns=[pyround(x)])]

    def fresh_of_kind(self, kind, nm):
        if kind == "timeval":
            f = {k: z3.Const(f"{nm}_{k}", I) for k in ("hour", "minute", "second", "microsecond")}
            return timeval(f, z3.Const(f"{nm}_tzinfo_is_none", B), z3.Const(f"{nm}_utcoffset_seconds", R))
        return super().fresh_of_kind(kind, nm)

    def kind_facts(self, v):
        if isinstance(v, ObjV) and v.role == "timeval":
            f = v.info["fields"]
            return [f["hour"] >= 0, f["hour"] <= 23, f["minute"] >= 0, f["minute"] <= 59, f["second"] >= 0,
                    f["second"] <= 59, f["microsecond"] >= 0, f["microsecond"] <= 999999,
                    v.info["off"] > -86400, v.info["off"] < 86400]
        return super().kind_facts(v)

    def make_self(self, ex, fv):
        return ObjV("self", cls=fv.cls_name, info={"oid": "self"})

    def initial_field(self, ex, recv, attr):
        if recv.role == "self" and attr == "time_trailing_z":
            return Z("bool", z3.Const("self_time_trailing_z", B))
        return None

    def global_name(self, ex, name):
        if name in ("datetime", "divmod", "abs", "int", "round", "super"):
            return FuncV(name)
        return super().global_name(ex, name)

    def fresh_result(self, ex, res, label):
        if res == "fmt":
            raise Untranslatable("fmt results are given by the callee contract's value")
        return super().fresh_result(ex, res, label)

    def result_conforms(self, ex, res_kind, v):
        if res_kind == "fmt":
            return parts_of(v) is not None
        return super().result_conforms(ex, res_kind, v)

    def coerce_result(self, ex, res_kind, v):
        if res_kind == "fmt":
            return fmt(parts_of(v))
        return super().coerce_result(ex, res_kind, v)

    # ---- attributes ------------------------------------------------------------------
    def getattr(self, ex, recv, attr):
        if isinstance(recv, ObjV) and recv.role == "timeval":
            if attr in recv.info["fields"]:
                return Z("int", recv.info["fields"][attr])
            if attr == "year":
                return Z("int", recv.info["year"])
            if attr == "tzinfo":
                return ObjV("tz", info={"none": recv.info["tz_none"], "off": recv.info["off"]})
            return BoundM(recv, attr)
        if isinstance(recv, ObjV) and recv.role in ("tz", "td"):
            return BoundM(recv, attr)
        if isinstance(recv, FuncV) and recv.name == "datetime":
            return FuncV("datetime." + attr)
        return super().getattr(ex, recv, attr)

    def is_none(self, ex, a):
        if isinstance(a, ObjV) and a.role in ("tz", "td"):
            return a.info["none"]
        if isinstance(a, ObjV) and a.role in ("timeval", "fmt"):
            return False
        return super().is_none(ex, a)

    def truth(self, ex, v):
        if isinstance(v, Z) and v.kind == "real":
            return v.t != 0
        return super().truth(ex, v)

    def eq(self, ex, a, b):
        if isinstance(a, ObjV) and isinstance(b, ObjV) and a.role == "td" and b.role == "td":
            both = z3.And(z3.Not(a.info["none"]), z3.Not(b.info["none"]), a.info["off"] == b.info["off"])
            return z3.Or(both, z3.And(a.info["none"], b.info["none"]))
        ra, rb = real_of(ex, a), real_of(ex, b)
        if ra is not None and rb is not None and (isinstance(a, Z) and a.kind == "real" or isinstance(b, Z) and b.kind == "real"):
            return ra == rb
        if isinstance(a, Z) and a.kind == "signstr" and isinstance(b, Conc):
            return a.t == (1 if b.v == "+" else -1 if b.v == "-" else 0)
        return super().eq(ex, a, b)

    def compare(self, ex, op, a, b):
        ra, rb = real_of(ex, a), real_of(ex, b)
        if ra is not None and rb is not None:
            f = {ast.Lt: lambda x, y: x < y, ast.LtE: lambda x, y: x <= y,
                 ast.Gt: lambda x, y: x > y, ast.GtE: lambda x, y: x >= y}[type(op)]
            return Z("bool", f(ra, rb))
        if isinstance(a, ObjV) and isinstance(b, ObjV) and a.role == "td" and b.role == "td":
            f = {ast.Lt: lambda x, y: x < y, ast.LtE: lambda x, y: x <= y,
                 ast.Gt: lambda x, y: x > y, ast.GtE: lambda x, y: x >= y}[type(op)]
            return Z("bool", f(a.info["off"], b.info["off"]))
        return super().compare(ex, op, a, b)

    def binop(self, ex, op, a, b):
        pa, pb = parts_of(a), parts_of(b)
        if isinstance(op, ast.Add) and pa is not None and pb is not None:
            return fmt(pa + pb)
        ra, rb = real_of(ex, a), real_of(ex, b)
        if ra is not None and rb is not None:
            if isinstance(op, ast.Div):
                return Z("real", ra / rb)
            isreal_ = (isinstance(a, Z) and a.kind == "real") or (isinstance(b, Z) and b.kind == "real")
            if isinstance(op, (ast.FloorDiv, ast.Mod)):
                ex.oblige(f"{ex.fv.qual}:floor-division:divisor-positive", rb > 0)
                if isreal_:
                    q = z3.ToReal(z3.ToInt(ra / rb))
                    return Z("real", q if isinstance(op, ast.FloorDiv) else ra - q * rb)
                ia, ib = ex.as_int(a), ex.as_int(b)
                return Z("int", ia / ib if isinstance(op, ast.FloorDiv) else ia % ib)
            isreal = (isinstance(a, Z) and a.kind == "real") or (isinstance(b, Z) and b.kind == "real")
            if isreal and isinstance(op, (ast.Add, ast.Sub, ast.Mult)):
                return Z("real", {ast.Add: ra + rb, ast.Sub: ra - rb, ast.Mult: ra * rb}[type(op)])
        if isinstance(op, ast.Mult):
            for x, y in ((a, b), (b, a)):
                if isinstance(x, ObjV) and x.role == "td" and ex.as_int(y) is not None:
                    return ObjV("td", info={"none": x.info["none"], "off": x.info["off"] * z3.ToReal(ex.as_int(y))})
        return super().binop(ex, op, a, b)

    # ---- f-strings ---------------------------------------------------------------------
    def joined_str(self, ex, node):
        parts = []
        for v in node.values:
            if isinstance(v, ast.Constant):
                if v.value:
                    parts.append(("lit", v.value))
                continue
            val = ex.expr(v.value)
            spec = ""
            if v.format_spec is not None:
                if not all(isinstance(x, ast.Constant) for x in v.format_spec.values):
                    raise Untranslatable("dynamic format spec")
                spec = "".join(x.value for x in v.format_spec.values)
            if v.conversion != -1:
                raise Untranslatable("conversion in f-string")
            if isinstance(val, ObjV) and val.role == "timeval":
                if spec == "":
                    return OPAQUE_STR        # str(value): only in messages
                parts.append(("strftime", spec, tuple(val.info["fields"][k] for k in ("hour", "minute", "second", "microsecond"))))
            elif isinstance(val, Z) and val.kind == "signstr":
                parts.append(("sign", val.t))
            elif ex.as_int(val) is not None:
                parts.append(("int", spec, ex.as_int(val)))
            elif isinstance(val, Z) and val.kind == "real":
                parts.append(("real", spec, val.t))
            elif parts_of(val) is not None:
                parts += parts_of(val)
            else:
                return OPAQUE_STR
        return fmt(parts)

    # ---- calls -----------------------------------------------------------------------
    def call(self, ex, fv, args, kwargs, node):
        if isinstance(fv, FuncV):
            n = fv.name
            if n == "datetime.timedelta":
                if not args and not kwargs:
                    return ObjV("td", info={"none": z3.BoolVal(False), "off": z3.RealVal(0)})
                if len(args) == 1 and isinstance(args[0], Conc) and args[0].v == 0 and not kwargs:
                    return ObjV("td", info={"none": z3.BoolVal(False), "off": z3.RealVal(0)})
                if not args and set(kwargs) <= {"hours", "minutes", "seconds"}:
                    tot = z3.RealVal(0)
                    for k, mul in (("hours", 3600), ("minutes", 60), ("seconds", 1)):
                        if k in kwargs:
                            tot = tot + real_of(ex, kwargs[k]) * mul
                    return ObjV("td", info={"none": z3.BoolVal(False), "off": tot})
                raise Untranslatable("timedelta(...)")
            if n == "abs":
                r = real_of(ex, args[0])
                if r is None:
                    raise Untranslatable("abs")
                if isinstance(args[0], Z) and args[0].kind == "real":
                    return Z("real", z3.If(r >= 0, r, -r))
                i = ex.as_int(args[0])
                return Z("int", z3.If(i >= 0, i, -i))
            if n == "divmod":
                a, b = args
                if isinstance(a, ObjV) and a.role == "td":
                    raise Untranslatable("divmod on timedelta")
                ia, ib = ex.as_int(a), ex.as_int(b)
                if ia is not None and ib is not None:
                    ex.oblige(f"{ex.fv.qual}:divmod:divisor-positive", ib > 0)
                    return TupV([Z("int", ia / ib), Z("int", ia % ib)])
                ra, rb = real_of(ex, a), real_of(ex, b)
                if ra is None or rb is None:
                    raise Untranslatable("divmod")
                ex.oblige(f"{ex.fv.qual}:divmod:divisor-positive", rb > 0)
                q = z3.ToReal(z3.ToInt(ra / rb))
                return TupV([Z("real", q), Z("real", ra - q * rb)])
            if n == "int":
                if isinstance(args[0], Z) and args[0].kind == "real":
                    r = args[0].t
                    return Z("int", z3.If(r >= 0, z3.ToInt(r), -z3.ToInt(-r)))
                i = ex.as_int(args[0])
                if i is not None:
                    return Z("int", i)
                raise Untranslatable("int(...)")
            if n == "round":
                r = real_of(ex, args[0])
                if r is None or len(args) != 1:
                    raise Untranslatable("round")
                return Z("int", pyround(r))
        return super().call(ex, fv, args, kwargs, node)

    def call_method(self, ex, recv, name, args, kwargs):
        if isinstance(recv, ObjV) and recv.role == "timeval":
            if name == "utcoffset":
                return ObjV("td", info={"none": recv.info["tz_none"], "off": recv.info["off"]})
            if name == "replace" and not args and set(kwargs) == {"tzinfo"}:
                tz = kwargs["tzinfo"]
                if isinstance(tz, Conc) and tz.v is None:
                    return timeval(recv.info["fields"], z3.BoolVal(True), z3.RealVal(0), recv.info["year"])
                raise Untranslatable("replace(tzinfo=<non-None>)")
            if name == "astimezone":
                raise Untranslatable("astimezone changes the fields (calendar arithmetic is outside T_time)")
        if isinstance(recv, ObjV) and recv.role == "tz" and name == "utcoffset":
            # a fixed-offset zone: tzinfo.utcoffset(None) is the value's utcoffset() (assumption listed)
            if ex.branch(recv.info["none"], "tzinfo-is-None"):
                raise PyRaise(ExcV("AttributeError"))
            return ObjV("td", info={"none": z3.BoolVal(False), "off": recv.info["off"]})
        if isinstance(recv, ObjV) and recv.role == "td" and name == "total_seconds":
            if ex.branch(recv.info["none"], "utcoffset-is-None"):
                raise PyRaise(ExcV("AttributeError"))
            return Z("real", recv.info["off"])
        return super().call_method(ex, recv, name, args, kwargs)

    def ifexp_value(self, ex, node):
        return None


class OffsetTheory(TimeTheory):
    """ODLDecoder.decode_datetime: the zone-offset suffix.  The match groups are symbolic: sign in {+1,-1}, hour and
    minute non-negative integers (their text -> int() gives the integer; an absent minute group is the default 0);
    the result of the inner super().decode_datetime is a value of symbolic kind with a symbolic prior zone."""
    name = "T_off"

    def make_self(self, ex, fv):
        return ObjV("self", cls=fv.cls_name, info={"oid": "self"})

    def initial_field(self, ex, recv, attr):
        if recv.role == "self" and attr == "grammar":
            return ObjV("grammar")
        return super().initial_field(ex, recv, attr)

    def global_name(self, ex, name):
        if name in ("re", "timedelta", "timezone", "datetime", "time", "isinstance", "int"):
            return FuncV(name)
        return super().global_name(ex, name)

    def fresh_of_kind(self, kind, nm):
        if kind == "text":
            return ObjV("text", info={"id": nm})
        return super().fresh_of_kind(kind, nm)

    def getattr(self, ex, recv, attr):
        if isinstance(recv, ObjV) and recv.role == "grammar":
            return OPAQUE_STR
        if isinstance(recv, ObjV) and recv.role in ("match", "gd", "text", "decoded", "grp"):
            return BoundM(recv, attr)
        if isinstance(recv, FuncV) and recv.name == "re":
            return FuncV("re." + attr)
        return super().getattr(ex, recv, attr)

    def is_none(self, ex, a):
        if isinstance(a, ObjV) and a.role == "match":
            return z3.Not(a.info["ok"])
        if isinstance(a, ObjV) and a.role in ("decoded", "gd", "text", "grp"):
            return False
        return super().is_none(ex, a)

    def getitem(self, ex, recv, idx):
        if isinstance(recv, ObjV) and recv.role == "gd" and isinstance(idx, Conc):
            k = idx.v
            if k == "dt":
                return ObjV("text", info={"id": "group_dt"})
            if k == "sign":
                return ObjV("grp", info={"kind": "sign", "val": z3.Const("group_sign", I)})
            if k in ("hour", "minute"):
                return ObjV("grp", info={"kind": "digits", "val": z3.Const("group_" + k, I)})
            raise PyRaise(ExcV("KeyError"))
        return super().getitem(ex, recv, idx)

    def eq(self, ex, a, b):
        for x, y in ((a, b), (b, a)):
            if isinstance(x, ObjV) and x.role == "grp" and x.info["kind"] == "sign" and isinstance(y, Conc):
                return x.info["val"] == (1 if y.v == "+" else -1 if y.v == "-" else 0)
        return super().eq(ex, a, b)

    def binop(self, ex, op, a, b):
        if (isinstance(op, ast.Add) and isinstance(a, ObjV) and a.role == "grp" and a.info["kind"] == "sign"
                and isinstance(b, ObjV) and b.role == "grp" and b.info["kind"] == "digits"):
            return ObjV("grp", info={"kind": "signed", "val": a.info["val"] * b.info["val"]})   # '-' + '05' -> int() gives -5
        return super().binop(ex, op, a, b)

    def call(self, ex, fv, args, kwargs, node):
        if isinstance(fv, FuncV):
            n = fv.name
            if n == "re.fullmatch":
                return ObjV("match", info={"ok": z3.Const("offset_pattern_matches", B)})
            if n == "int" and isinstance(args[0], ObjV) and args[0].role == "grp":
                if args[0].info["kind"] == "sign":
                    raise PyRaise(ExcV("ValueError"))
                return Z("int", args[0].info["val"])
            if n == "timedelta":
                return super().call(ex, FuncV("datetime.timedelta"), args, kwargs, node)
            if n == "timezone":
                td = args[0]
                if not (isinstance(td, ObjV) and td.role == "td"):
                    raise Untranslatable("timezone(<non-timedelta>)")
                # timezone() refuses offsets of a day or more
                if ex.branch(z3.And(td.info["off"] > -86400, td.info["off"] < 86400), "offset-within-a-day"):
                    return ObjV("tzobj", info={"off": td.info["off"]})
                raise PyRaise(ExcV("ValueError"))
            if n == "isinstance":
                v, t = args
                names = [x.name for x in (t.items if isinstance(t, TupV) else [t])]
                if isinstance(v, ObjV) and v.role == "decoded" and set(names) == {"datetime", "time"}:
                    return Z("bool", v.info["temporal"])
                raise Untranslatable("isinstance")
        return super().call(ex, fv, args, kwargs, node)

    def call_method(self, ex, recv, name, args, kwargs):
        if isinstance(recv, ObjV) and recv.role == "match" and name == "groupdict":
            return ObjV("gd")
        if isinstance(recv, ObjV) and recv.role == "text" and name == "endswith":
            return Z("bool", z3.Const(f"{recv.info['id']}_ends_with_Z_or_z", B))
        if isinstance(recv, ObjV) and recv.role == "decoded" and name == "replace" and set(kwargs) == {"tzinfo"}:
            tz = kwargs["tzinfo"]
            if isinstance(tz, ObjV) and tz.role == "tzobj":
                return ObjV("decoded", info=dict(recv.info, zone=tz.info["off"], rezoned=True))
        return super().call_method(ex, recv, name, args, kwargs)


class PdsDecTheory(OffsetTheory):
    """PDSLabelDecoder.decode_datetime: the plain cascade's result, refused when it has sub-millisecond precision"""
    name = "T_off"

    def global_name(self, ex, name):
        if name in ("hasattr", "ODLDecoder"):
            return FuncV(name)
        return super().global_name(ex, name)

    def getattr(self, ex, recv, attr):
        if isinstance(recv, ObjV) and recv.role == "decoded" and attr == "microsecond":
            return Z("int", z3.Const(f"decode_{recv.info['of']}_microsecond", I))
        return super().getattr(ex, recv, attr)

    def call(self, ex, fv, args, kwargs, node):
        if isinstance(fv, FuncV) and fv.name == "hasattr":
            v, nm = args
            if isinstance(v, ObjV) and v.role == "decoded" and isinstance(nm, Conc) and nm.v == "microsecond":
                return Z("bool", v.info["temporal"])     # dates and leap-second texts have no microsecond attribute
            raise Untranslatable("hasattr")
        return super().call(ex, fv, args, kwargs, node)


class BasedIntTheory(ObjTheory):
    """decode_non_decimal of the three decoder families: the match groups of the grammar's based-integer patterns are
    symbolic texts; int(text, base=b) and int(text) are uninterpreted (their language: regex obligations based:*)."""
    name = "T_based"
    feasible_axioms = False
    candidate_models = True

    def make_self(self, ex, fv):
        return ObjV("self", cls=fv.cls_name, info={"oid": "self"})

    def initial_field(self, ex, recv, attr):
        if recv.role == "self" and attr == "grammar":
            return ObjV("grammar")
        return None

    def fresh_of_kind(self, kind, nm):
        if kind == "text":
            return Z("str", z3.Const("value_text", S))
        return super().fresh_of_kind(kind, nm)

    def global_name(self, ex, name):
        if name in ("int",):
            return FuncV(name)
        return super().global_name(ex, name)

    def getattr(self, ex, recv, attr):
        if isinstance(recv, ObjV) and recv.role == "grammar" and attr.endswith("_re"):
            return ObjV("regex", info={"name": attr})
        if isinstance(recv, ObjV) and recv.role in ("regex", "match", "gd"):
            return BoundM(recv, attr)
        return super().getattr(ex, recv, attr)

    def is_none(self, ex, a):
        if isinstance(a, ObjV) and a.role == "match":
            return z3.Not(a.info["ok"])
        return super().is_none(ex, a)

    def contains(self, ex, container, item):
        if isinstance(container, ObjV) and container.role == "gd" and isinstance(item, Conc):
            return z3.Const(f"{container.info['re']}_has_group_{item.v}", B)
        return super().contains(ex, container, item)

    def getitem(self, ex, recv, idx):
        if isinstance(recv, ObjV) and recv.role == "gd" and isinstance(idx, Conc):
            has = z3.Const(f"{recv.info['re']}_has_group_{idx.v}", B)
            if ex.branch(has, f"group-{idx.v}"):
                return Z("str", z3.Const(f"{recv.info['re']}_group_{idx.v}", S))
            raise PyRaise(ExcV("KeyError"))
        return super().getitem(ex, recv, idx)

    def call(self, ex, fv, args, kwargs, node):
        from .objtheory import sval
        if isinstance(fv, FuncV) and fv.name == "int":
            t = sval(args[0])
            if t is None:
                raise Untranslatable("int(non-text)")
            if "base" in kwargs:
                b = ex.as_int(kwargs["base"])
                ok = z3.Function("int_accepts_in_base", S, I, B)(t, b)
                if ex.branch(ok, "int(text, base)"):
                    return Z("int", z3.Function("int_value_in_base", S, I, I)(t, b))
                raise PyRaise(ExcV("ValueError"))
            ok = z3.Function("int_accepts", S, B)(t)
            if ex.branch(ok, "int(text)"):
                return Z("int", z3.Function("int_value", S, I)(t))
            raise PyRaise(ExcV("ValueError"))
        return super().call(ex, fv, args, kwargs, node)

    def call_method(self, ex, recv, name, args, kwargs):
        from .objtheory import sval
        if isinstance(recv, ObjV) and recv.role == "regex" and name == "fullmatch":
            return ObjV("match", info={"re": recv.info["name"],
                                       "ok": z3.Function("re_fullmatch", S, S, B)(z3.Const("pattern_" + recv.info["name"], S), sval(args[0]))})
        if isinstance(recv, ObjV) and recv.role == "match" and name == "groupdict":
            return ObjV("gd", info={"re": recv.info["re"]})
        return super().call_method(ex, recv, name, args, kwargs)
