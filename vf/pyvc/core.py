"""pyvc core: forward symbolic execution of the *real* Python AST of a function, path by
path, against a sidecar contract.  Calls are modular (callee contract only).  One SMT
query per (path, obligation).

Python semantics assumed by this encoding (also listed in every evidence file):
 * left-to-right evaluation, short-circuit and/or, chained comparisons;
 * exceptions are matched against the class lattice in EXC_BASES (the real one);
 * ints are mathematical integers (exact for Python);
 * `for` over a list reads the list live by position; `for` over a concrete tuple display
   is unrolled; every other loop is cut with the invariant given in the contract
   (established / preserved / used), havocking exactly the variables the body assigns
   and the theory state the body can modify;
 * comprehensions over sequences are monoid homomorphisms (see theories);
 * message construction (f-strings, str.format, `+` on messages) for exceptions,
   warnings.warn and logging calls are abstracted to opaque strings / no-ops.
Anything outside the subset raises Untranslatable: no guess is made.
"""
import ast
import itertools
import time

import z3

from ..harness import DISCHARGED, FAILED, UNDECIDED, UNTRANSLATABLE


class Untranslatable(Exception):
    pass


class PathEnd(Exception):
    """The current path is finished (cut at a loop head, or infeasible)."""


class PyRaise(Exception):
    def __init__(self, exc):
        self.exc = exc


class _Return(Exception):
    def __init__(self, value):
        self.value = value


class _Break(Exception):
    pass


class _Continue(Exception):
    pass


# the real exception lattice (class name -> direct bases)
EXC_BASES = {
    "BaseException": [],
    "Exception": ["BaseException"],
    "StopIteration": ["Exception"],
    "ArithmeticError": ["Exception"],
    "InvalidOperation": ["ArithmeticError"],
    "LookupError": ["Exception"],
    "KeyError": ["LookupError"],
    "IndexError": ["LookupError"],
    "TypeError": ["Exception"],
    "AttributeError": ["Exception"],
    "NotImplementedError": ["RuntimeError"],
    "RuntimeError": ["Exception"],
    "ValueError": ["Exception"],
    "UnicodeError": ["ValueError"],
    "UnicodeDecodeError": ["UnicodeError"],
    "UnicodeEncodeError": ["UnicodeError"],
    "LexerError": ["ValueError"],
    "ParseError": ["Exception"],
    "QuantityError": ["Exception"],
    "ImportError": ["Exception"],
    "OSError": ["Exception"],
}


def exc_isa(name, base):
    if name == base:
        return True
    return any(exc_isa(b, base) for b in EXC_BASES.get(name, []))


# ---------------------------------------------------------------------------------
# values

class Conc:
    """A concrete Python value (None, bool, int, str, tuple of concrete, class object...)."""
    __slots__ = ("v",)

    def __init__(self, v):
        self.v = v

    def __repr__(self):
        return f"Conc({self.v!r})"


class Z:
    """A symbolic value: kind tag + z3 term."""
    __slots__ = ("kind", "t")

    def __init__(self, kind, t):
        self.kind = kind
        self.t = t

    def __repr__(self):
        return f"Z({self.kind},{self.t})"


class TupV:
    __slots__ = ("items",)

    def __init__(self, items):
        self.items = list(items)

    def __repr__(self):
        return f"TupV({self.items})"


class ExcV:
    """An exception instance: class name + opaque payload."""
    __slots__ = ("cls", "payload")

    def __init__(self, cls, payload=None):
        self.cls = cls
        self.payload = payload

    def __repr__(self):
        return f"ExcV({self.cls})"


class ObjV:
    """An object known only by a symbolic class tag / role (self, a container, ...)."""
    __slots__ = ("role", "cls", "info")

    def __init__(self, role, cls=None, info=None):
        self.role = role
        self.cls = cls
        self.info = info or {}

    def __repr__(self):
        return f"ObjV({self.role})"


class BoundM:
    __slots__ = ("recv", "name")

    def __init__(self, recv, name):
        self.recv = recv
        self.name = name

    def __repr__(self):
        return f"BoundM({self.recv}.{self.name})"


class FuncV:
    __slots__ = ("name",)

    def __init__(self, name):
        self.name = name

    def __repr__(self):
        return f"FuncV({self.name})"


class LambdaV:
    """A lambda expression with the environment it was written in (called by the theory: parameters bound positionally)."""
    __slots__ = ("node", "env")

    def __init__(self, node, env):
        self.node = node
        self.env = env

    def __repr__(self):
        return f"LambdaV(line {self.node.lineno})"


class OpaqueStr:
    """An abstracted message string."""

    def __repr__(self):
        return "OpaqueStr"


OPAQUE_STR = OpaqueStr()
_fresh = itertools.count()


def fresh(prefix, sort):
    return z3.Const(f"{prefix}!{next(_fresh)}", sort)


# ---------------------------------------------------------------------------------
# path enumeration by choice replay

class Chooser:
    def __init__(self):
        self.stack = [[]]      # pending choice prefixes

    def paths(self):
        while self.stack:
            prefix = self.stack.pop()
            p = Path(prefix, self)
            yield p


class Path:
    def __init__(self, prefix, chooser):
        self.prefix = list(prefix)
        self.taken = []
        self.chooser = chooser
        self.labels = []

    def choose(self, n, label=""):
        i = len(self.taken)
        if i < len(self.prefix):
            c = self.prefix[i]
        else:
            c = 0
            for alt in range(n - 1, 0, -1):
                self.chooser.stack.append(self.taken + [alt])
        self.taken.append(c)
        self.labels.append(f"{label}={c}")
        return c

    def cached(self, compute):
        """A solver-derived fact about the path so far (feasibility of a branch, validity of an
        alignment): computed once, replayed when the path prefix is re-executed."""
        i = len(self.taken)
        if i < len(self.prefix):
            v = self.prefix[i]
            if not (isinstance(v, tuple) and v and v[0] == "cached"):
                raise RuntimeError("path replay out of step")
        else:
            v = ("cached", compute())
        self.taken.append(v)
        return v[1]


# ---------------------------------------------------------------------------------
# solver

def _symbols(formulas):
    """names of the uninterpreted function symbols (arity > 0) occurring in the formulas"""
    out = set()
    seen = set()
    todo = list(formulas)
    while todo:
        e = todo.pop()
        if e.get_id() in seen:
            continue
        seen.add(e.get_id())
        if z3.is_quantifier(e):
            todo.append(e.body())
            for i in range(e.num_patterns()):
                todo.append(e.pattern(i))
            continue
        if z3.is_app(e):
            d = e.decl()
            if d.kind() == z3.Z3_OP_UNINTERPRETED and d.arity() > 0:
                out.add(d.name())
            todo.extend(e.children())
    return out


RLIMIT_PER_MS = 4000      # z3 resource units per "millisecond" of nominal budget (largest discharged obligation on the unchanged tree uses ~3e7)


class Prover:
    """Validity checks `axioms and pc => goal`, one query per obligation, fixed budget."""

    def __init__(self, axioms=(), timeout_ms=20000, expander=None):
        self.axioms = list(axioms)
        self.timeout_ms = timeout_ms
        self.expander = expander      # expands lazy fact schemas at query time
        self.max_rlimit = 0
        self._trig = {}
        self._ment = {}
        self.candidate_models = False
        self.feasible_axioms = True   # confirm infeasibility with the quantified axioms (slower, fewer paths)
        self.time = 0.0
        self.queries = 0

    def _solver(self, timeout_ms, pc, extra, axioms=True, simple=False):
        s = z3.SimpleSolver() if simple else z3.Solver()
        s.set("timeout", timeout_ms)
        plain = [f for f in pc if z3.is_expr(f)]
        lazy = [f for f in pc if not z3.is_expr(f)]
        body = list(plain) + list(extra)
        if self.expander is not None:
            body += list(self.expander(plain + list(extra), lazy))
        if axioms and self.axioms:
            # only the axioms about function symbols that occur in the query (fixed point over the
            # symbols the selected axioms mention themselves)
            syms = _symbols(body)
            chosen = []
            pending = list(self.axioms)
            changed = True
            while changed:
                changed = False
                rest = []
                for a in pending:
                    trig = self._triggers(a)
                    if not trig or trig & syms:
                        chosen.append(a)
                        syms |= self._mentions(a)
                        changed = True
                    else:
                        rest.append(a)
                pending = rest
            for a in chosen:
                s.add(a)
        for f in body:
            s.add(f)
        return s

    def _triggers(self, a):
        """uninterpreted function symbols in the patterns of a quantified axiom (empty: always include)"""
        k = a.get_id()
        if k not in self._trig:
            t = set()
            if z3.is_quantifier(a):
                for i in range(a.num_patterns()):
                    t |= _symbols([a.pattern(i)])
            self._trig[k] = t
            self._ment[k] = _symbols([a.body()]) if z3.is_quantifier(a) else _symbols([a])
        return self._trig[k]

    def _mentions(self, a):
        self._triggers(a)
        return self._ment[a.get_id()]

    def feasible(self, pc, extra=None, timeout_ms=1500):
        # quantifier-free over-approximation first (fast); axioms only to confirm infeasibility
        s = self._solver(timeout_ms, [f for f in pc if not z3.is_expr(f) or not z3.is_quantifier(f)],
                         [extra] if extra is not None else [], axioms=False)
        t = time.time()
        r = s.check()
        if r == z3.sat and self.axioms and self.feasible_axioms:
            s2 = self._solver(300, pc, [extra] if extra is not None else [])
            if s2.check() == z3.unsat:
                r = z3.unsat
        self.time += time.time() - t
        self.queries += 1
        return r != z3.unsat

    def prove(self, pc, goal, timeout_ms=None, early_refute=None):
        """-> (status, detail, seconds).  The sequence solver is unstable on identical input, so the
        budget is split over several random seeds; `unsat` from any attempt is a proof, `sat`
        from any attempt is a counter-model, otherwise undecided.  Budgets are z3 resource units
        (rlimit), not wall-clock, so that verdicts do not depend on machine load; the wall-clock
        timeout is only a generous safety net."""
        total = timeout_ms or self.timeout_ms
        unit = total * RLIMIT_PER_MS
        # geometric schedule: cheap attempts under several seeds first, the big budgets last
        plan = [(0, unit // 100), (7, unit // 100), (23, unit // 40), (41, unit // 40), (0, unit // 8),
                (101, unit // 4), (7, unit // 2)]
        t = time.time()
        r = None
        s = None
        cand_tried = False
        used_cand = False
        for seed, budget in plan:
            s = self._solver(total * 6, pc, [z3.Not(goal)])
            s.set("rlimit", int(max(budget, 200000)))
            s.set("random_seed", seed)
            if seed:
                s.set("smt.random_seed", seed)
                s.set("smt.phase_selection", seed % 6)
            r = s.check()
            try:
                self.max_rlimit = max(self.max_rlimit, int(s.statistics().get_key_value("rlimit count"))) if r == z3.unsat else self.max_rlimit
            except Exception:
                pass
            if r != z3.unknown:
                break
            if early_refute is not None and not cand_tried and budget >= unit // 40:
                # a cheap counter-model search before the expensive attempts (the theory's refutation pass)
                cand_tried = True
                try:
                    mdl = early_refute()
                except Exception:
                    mdl = None
                if mdl is not None:
                    self.last_model = mdl
                    dt = time.time() - t
                    self.time += dt
                    self.queries += 1
                    return FAILED, "early-refuted", dt
            if self.candidate_models and budget >= unit // 100 and not cand_tried:
                # E-matching only (no model-based instantiation): if the instantiation saturates
                # without a contradiction the remaining model is a counter-model of the VC with the
                # axioms instantiated at every term the patterns reach
                cand_tried = True
                s2 = self._solver(total * 6, pc, [z3.Not(goal)], simple=True)
                s2.set("auto_config", False)
                s2.set("mbqi", False)
                s2.set("rlimit", int(max(unit // 20, 2000000)))
                r2 = s2.check()
                if r2 == z3.sat or (r2 == z3.unknown and "incomplete" in s2.reason_unknown()):
                    try:
                        cand = s2.model()
                    except Exception:
                        cand = None
                    if cand is not None:
                        r, s, used_cand = z3.sat, s2, True
                        break
                elif r2 == z3.unsat:
                    r, s = r2, s2
                    break
        dt = time.time() - t
        self.time += dt
        self.queries += 1
        if r == z3.unsat:
            return DISCHARGED, "", dt
        if r == z3.sat:
            try:
                m = s.model()
                detail = ("counter-model of the VC (quantified axioms instantiated by E-matching): " if used_cand else "counter-model: ") + ", ".join(f"{d.name()}={m[d]}" for d in list(m.decls())[:40] if d.arity() == 0)
            except Exception:
                m = None
                detail = "sat"
            self.last_model = m
            return FAILED, detail[:3000], dt
        return UNDECIDED, "solver: " + s.reason_unknown(), dt

    def model(self, pc, goal, timeout_ms=None):
        s = self._solver(timeout_ms or self.timeout_ms, pc, [z3.Not(goal)])
        if s.check() == z3.sat:
            return s.model()
        return None


APPROX_PREFIXES = ("any!", "all!", "any_of_unknown_collection", "all_of_unknown_collection")


def _mentions_approximation(pc, goal):
    seen = set()
    todo = list(pc) + [goal]
    while todo:
        e = todo.pop()
        if not z3.is_expr(e) or e.get_id() in seen:
            continue
        seen.add(e.get_id())
        if z3.is_quantifier(e):
            todo.append(e.body())
            continue
        if z3.is_app(e):
            if e.num_args() == 0 and e.decl().kind() == z3.Z3_OP_UNINTERPRETED and e.decl().name().startswith(APPROX_PREFIXES):
                return True
            todo.extend(e.children())
    return False


# ---------------------------------------------------------------------------------
# contracts

class Exit:
    """One permitted exit of a function.  kind: 'return' or an exception class name.
    when(pre, a) -> z3 Bool or None: the exit may be taken only when this holds.
    post(pre, post, a, res) -> list[(name, z3 Bool)].
    res_kind: kind of the returned value ('none', 'bool', 'int', 'K', ... or a callable
    making a fresh value)."""

    def __init__(self, kind, when=None, post=None, res=None, name=None, value=None, effect=None):
        self.kind = kind
        self.when = when
        self.post = post
        self.res = res
        self.name = name or kind
        self.value = value          # a concrete result (Conc) this exit stands for: True / False / None
        self.effect = effect        # effect(ex): ghost update performed when the exit is taken at a call site


class LoopSpec:
    """inv(env, st, i) -> list[(name, Bool)]; i is the abstract iteration position for `for`
    loops (None for `while`).  kinds: kinds of variables first assigned inside the body.
    variant(env, st, i) -> Int term that must decrease and stay >= 0 (while loops)."""

    def __init__(self, inv=None, kinds=None, variant=None, modifies=None, hints=None, fall_through=None, exit=None, step=None):
        self.step = step                   # one-iteration contract: step(ex, before, after, events) -> obligations
        self.fall_through = fall_through   # search loops: fall_through(env, st, x) -> facts when the body falls through for member x
        self.exit = exit                   # search loops: exit(env, st) -> facts after the loop (forall-closure of fall_through)
        self.hints = hints          # hints(env, st, i) -> lemma instances (valid facts) assumed in the body
        self.inv = inv or (lambda env, st, i: [])
        self.kinds = kinds or {}
        self.variant = variant
        self.modifies = modifies


class Contract:
    def __init__(self, target, params=None, requires=None, exits=None, loops=None,
                 modifies=None, hints=None, props=(), self_role="self", source=None,
                 defaults=None, note=""):
        self.target = target
        self.params = params or {}
        self.requires = requires or (lambda pre, a: [])
        self.exits = exits or []
        self.loops = loops or {}
        self.modifies = modifies            # None: theory default (everything of self)
        self.hints = hints                  # hints(ex, exit_kind, res) -> list[Bool] lemma instances
        self.props = props
        self.self_role = self_role
        self.source = source
        self.defaults = defaults or {}
        self.note = note
        self.fn = None
        self.is_function = False
        self.def_cls = None
        self.cls_name = None
        self.assumed = False
        self.pure = False
        self.replayer = None          # replayer(model, args, fv) -> None | (key, what, data): native replay

    def exit_for(self, kind):
        for e in self.exits:
            if e.kind == kind:
                return e
        if kind != "return":
            for e in self.exits:
                if e.kind != "return" and exc_isa(kind, e.kind):
                    return e
        return None


# ---------------------------------------------------------------------------------
# AST helpers

def loop_ordinals(fn):
    """Pre-order numbering of For/While nodes of a function (nested defs excluded)."""
    out = {}

    def walk(n):
        for c in ast.iter_child_nodes(n):
            if isinstance(c, (ast.FunctionDef, ast.Lambda, ast.ClassDef)):
                continue
            if isinstance(c, (ast.For, ast.While)):
                out[id(c)] = len(out)
            walk(c)

    walk(fn)
    return out


MUTATORS = {"append", "extend", "insert", "pop", "remove", "clear", "add", "update", "sort", "reverse",
            "discard", "setdefault", "popitem"}


def assigned_names(nodes):
    """Names (re)bound or mutated in place through a method call by the statements."""
    names = set()
    for n in nodes:
        for c in ast.walk(n):
            if isinstance(c, ast.Name) and isinstance(c.ctx, (ast.Store, ast.Del)):
                names.add(c.id)
            elif isinstance(c, ast.ExceptHandler) and c.name:
                names.add(c.name)
            elif (isinstance(c, ast.Call) and isinstance(c.func, ast.Attribute) and c.func.attr in MUTATORS
                  and isinstance(c.func.value, ast.Name) and c.func.value.id != "self"):
                names.add(c.func.value.id)
    return names


def exit_ordinals(fn):
    out = {}
    k = {"return": 0, "raise": 0}
    for c in ast.walk(fn):
        if isinstance(c, ast.Return):
            out[id(c)] = f"return#{k['return']}"
            k["return"] += 1
        elif isinstance(c, ast.Raise):
            out[id(c)] = f"raise#{k['raise']}"
            k["raise"] += 1
    return out


class State:
    """Per-path state.  `th` holds the theory state (dict of z3 terms / python values)."""

    def __init__(self):
        self.pc = []
        self.th = {}
        self.ghost = {}

    def snapshot(self):
        return dict(self.th)

    def assume(self, f):
        if isinstance(f, bool):
            if not f:
                raise PathEnd()
            return
        self.pc.append(f)


class Exec:
    """Executes one path of one function."""

    def __init__(self, fv, path):
        self.fv = fv                      # FuncVC
        self.theory = fv.theory
        self.path = path
        self.st = State()
        self.env = {}
        self.obls = []                    # (name, pc snapshot, goal)
        self.site = "entry"
        self.loop_ord = fv.loop_ord
        self.exit_ord = fv.exit_ord
        self.cur_exc = []                 # stack of exceptions being handled
        self.notes = []

    # ---- obligations -----------------------------------------------------------
    def oblige(self, name, goal):
        if isinstance(goal, bool):
            goal = z3.BoolVal(goal)
        self.obls.append((name, list(self.st.pc), goal))

    def feasible(self, cond=None):
        return self.fv.prover.feasible(self.st.pc, cond)

    def branch(self, cond, label="if"):
        """Fork on a (possibly symbolic) truth value; returns the python bool taken."""
        if isinstance(cond, bool):
            return cond
        cond = z3.simplify(cond)
        if z3.is_true(cond):
            return True
        if z3.is_false(cond):
            return False
        if getattr(self, "no_branch", False):
            raise Untranslatable("a symbolic branch inside an expression that is evaluated under a quantifier")
        ft, ff = self.path.cached(lambda: (self.feasible(cond), self.feasible(z3.Not(cond))))
        if ft and ff:
            c = self.path.choose(2, label)
            if c == 0:
                self.st.pc.append(cond)
                return True
            self.st.pc.append(z3.Not(cond))
            return False
        if ft:
            self.st.pc.append(cond)
            return True
        if ff:
            self.st.pc.append(z3.Not(cond))
            return False
        raise PathEnd()

    # ---- statements ------------------------------------------------------------
    def stmts(self, body):
        for s in body:
            self.stmt(s)

    def stmt(self, n):
        m = getattr(self, "s_" + type(n).__name__, None)
        if m is None:
            raise Untranslatable(f"statement {type(n).__name__} at line {n.lineno}")
        self.lineno = n.lineno
        return m(n)

    def s_Pass(self, n):
        pass

    def s_Expr(self, n):
        if isinstance(n.value, ast.Constant):
            return  # docstring
        self.expr(n.value)

    def s_Return(self, n):
        v = Conc(None) if n.value is None else self.expr(n.value)
        self.site = self.exit_ord.get(id(n), "return")
        raise _Return(v)

    def s_Break(self, n):
        raise _Break()

    def s_Continue(self, n):
        raise _Continue()

    def s_Assign(self, n):
        v = self.expr(n.value)
        for t in n.targets:
            self.assign(t, v)

    def s_AnnAssign(self, n):
        if n.value is not None:
            self.assign(n.target, self.expr(n.value))

    def s_AugAssign(self, n):
        cur = self.expr(_load(n.target))
        rhs = self.expr(n.value)
        v = self.binop(n.op, cur, rhs)
        self.assign(n.target, v)

    def s_If(self, n):
        if self.branch(self.truth(self.expr(n.test)), f"if@{n.lineno}"):
            self.stmts(n.body)
        else:
            self.stmts(n.orelse)

    def s_Raise(self, n):
        self.site = self.exit_ord.get(id(n), "raise")
        if n.exc is None:
            if not self.cur_exc:
                raise Untranslatable("bare raise outside handler")
            raise PyRaise(self.cur_exc[-1])
        v = self.expr(n.exc)
        if isinstance(v, ExcV):
            raise PyRaise(v)
        if isinstance(v, Conc) and isinstance(v.v, str) and v.v in EXC_BASES:
            raise PyRaise(ExcV(v.v))
        if isinstance(v, FuncV) and v.name in EXC_BASES:
            raise PyRaise(ExcV(v.name))
        raise Untranslatable(f"raise of {v!r} at line {n.lineno}")

    def s_Try(self, n):
        if n.finalbody:
            raise Untranslatable("try/finally")
        try:
            self.stmts(n.body)
        except PyRaise as pr:
            for h in n.handlers:
                if self.handler_matches(h, pr.exc):
                    if h.name:
                        self.env[h.name] = pr.exc
                    self.cur_exc.append(pr.exc)
                    try:
                        self.stmts(h.body)
                    finally:
                        self.cur_exc.pop()
                    return
            raise
        self.stmts(n.orelse)

    def handler_matches(self, h, exc):
        if h.type is None:
            return True
        names = []
        t = h.type
        elts = t.elts if isinstance(t, ast.Tuple) else [t]
        for e in elts:
            if isinstance(e, ast.Name):
                names.append(e.id)
            elif isinstance(e, ast.Attribute):
                names.append(e.attr)
            else:
                raise Untranslatable("except clause expression")
        for nm in names:
            v = self.env.get(nm)
            if isinstance(v, FuncV) and v.name in EXC_BASES:
                nm = v.name            # e.g. `exception` parameter bound to a class
            if nm not in EXC_BASES:
                raise Untranslatable(f"unknown exception class {nm}")
            if exc_isa(exc.cls, nm):
                return True
        return False

    def s_While(self, n):
        wo = self.loop_ord.get(id(n), -1)         # -1: a loop of an inlined helper (no specification of its own)
        spec = self.fv.contract.loops.get(wo)
        if spec is None:
            raise Untranslatable(f"while loop #{wo} (line {n.lineno}) has no invariant")
        lname = f"loop#{wo}"
        for nm, f in spec.inv(self.env, self.st, None):
            self.oblige(f"{self.fv.qual}:{lname}:inv-established:{nm}", f)
        self.havoc_loop(n, spec)
        for nm, f in spec.inv(self.env, self.st, None):
            self.st.assume(f)
        if self.branch(self.truth(self.expr(n.test)), f"while@{n.lineno}"):
            v0 = spec.variant(self.env, self.st, None) if spec.variant else None
            try:
                self.stmts(n.body)
            except _Break:
                return
            except _Continue:
                pass
            for nm, f in spec.inv(self.env, self.st, None):
                self.oblige(f"{self.fv.qual}:{lname}:inv-preserved:{nm}", f)
            if v0 is not None:
                v1 = spec.variant(self.env, self.st, None)
                again = self.truth(self.expr(n.test))
                goal = z3.And(v1 < v0, v0 >= 0)
                if not isinstance(again, bool):
                    goal = z3.Implies(again, goal)
                if again is not False:
                    self.oblige(f"{self.fv.qual}:{lname}:variant-decreases-when-continuing", goal)
            raise PathEnd()
        else:
            self.stmts(n.orelse)

    def havoc_loop(self, n, spec):
        body = list(n.body)
        names = assigned_names(body)
        if isinstance(n, ast.For):
            names |= assigned_names([n.target])
        for nm in sorted(names):
            kind = spec.kinds.get(nm)
            old = self.env.get(nm)
            if kind is None:
                if old is None:
                    # first assigned inside the loop and not read before assignment: leave unbound
                    continue
                self.env[nm] = self.havoc_value(old, nm)
            else:
                self.env[nm] = self.theory.fresh_of_kind(kind, nm)
        self.theory.havoc_state(self, body, spec.modifies)

    def havoc_value(self, old, nm):
        if isinstance(old, Z):
            return Z(old.kind, fresh(nm, old.t.sort()))
        if isinstance(old, Conc) and isinstance(old.v, bool):
            return Z("bool", fresh(nm, z3.BoolSort()))
        if isinstance(old, Conc) and isinstance(old.v, int):
            return Z("int", fresh(nm, z3.IntSort()))
        if isinstance(old, TupV):
            return TupV([self.havoc_value(x, nm) for x in old.items])
        return self.theory.havoc_value(self, old, nm)

    def s_For(self, n):
        it = self.expr(n.iter)
        # concrete tuple / list display: unroll
        if isinstance(it, TupV) or (isinstance(it, Conc) and isinstance(it.v, (tuple, list))):
            items = it.items if isinstance(it, TupV) else [Conc(x) for x in it.v]
            broke = False
            for x in items:
                self.assign(n.target, x)
                try:
                    self.stmts(n.body)
                except _Break:
                    broke = True
                    break
                except _Continue:
                    continue
            if not broke:
                self.stmts(n.orelse)
            return
        ordn = self.loop_ord.get(id(n), -1)
        spec = self.fv.contract.loops.get(ordn) or self.fv.contract.loops.get("*")
        if spec is None and isinstance(it, ObjV) and it.role == "opaque-coll":
            spec = LoopSpec()      # nothing is claimed about a loop over an uninterpreted table
        if spec is None and hasattr(self.theory, "table_of") and (
                (isinstance(it, ObjV) and it.role == "mixed-iter") or self.theory.table_of(self, it) is not None):
            spec = LoopSpec()      # a search loop over a table: handled by the theory's automatic rule, no specification
        if spec is None:
            raise Untranslatable(f"for loop #{ordn} (line {n.lineno}) has no invariant")
        self.theory.for_loop(self, n, it, spec, ordn)

    def s_Delete(self, n):
        for t in n.targets:
            if isinstance(t, ast.Subscript):
                recv = self.expr(t.value)
                idx = self.expr(t.slice)
                self.theory.delitem(self, recv, idx)
            else:
                raise Untranslatable("del of non-subscript")

    def s_Import(self, n):
        raise Untranslatable("import inside function")

    s_ImportFrom = s_Import

    # ---- assignment ------------------------------------------------------------
    def assign(self, target, v):
        if isinstance(target, ast.Name):
            self.env[target.id] = v
        elif isinstance(target, (ast.Tuple, ast.List)):
            parts = self.unpack(v, len(target.elts))
            for t, p in zip(target.elts, parts):
                self.assign(t, p)
        elif isinstance(target, ast.Attribute):
            recv = self.expr(target.value)
            self.theory.setattr(self, recv, target.attr, v)
        elif isinstance(target, ast.Subscript):
            recv = self.expr(target.value)
            if isinstance(target.slice, ast.Slice):
                lo = self.expr(target.slice.lower) if target.slice.lower else None
                hi = self.expr(target.slice.upper) if target.slice.upper else None
                if target.slice.step is not None:
                    raise Untranslatable("slice step")
                self.theory.setslice(self, recv, lo, hi, v)
            else:
                if (isinstance(target.value, ast.Name) and isinstance(recv, Z) and recv.kind.startswith("seq")
                        and hasattr(self.theory, "local_setitem")):
                    # a local list (value semantics: lists bound to locals are fresh copies): functional update
                    self.env[target.value.id] = self.theory.local_setitem(self, recv, self.expr(target.slice), v)
                    return
                self.theory.setitem(self, recv, self.expr(target.slice), v)
        else:
            raise Untranslatable(f"assignment target {type(target).__name__}")

    def unpack(self, v, n):
        if isinstance(v, TupV):
            if len(v.items) != n:
                raise PyRaise(ExcV("ValueError"))
            return v.items
        if isinstance(v, Conc) and isinstance(v.v, (tuple, list)):
            if len(v.v) != n:
                raise PyRaise(ExcV("ValueError"))
            return [Conc(x) for x in v.v]
        return self.theory.unpack(self, v, n)

    # ---- expressions -----------------------------------------------------------
    def expr(self, n):
        m = getattr(self, "e_" + type(n).__name__, None)
        if m is None:
            raise Untranslatable(f"expression {type(n).__name__} at line {getattr(n, 'lineno', '?')}")
        return m(n)

    def e_Constant(self, n):
        return Conc(n.value)

    def e_JoinedStr(self, n):
        # f-string: evaluate nothing (message construction is abstracted) unless the theory models formatted text
        if hasattr(self.theory, "joined_str"):
            return self.theory.joined_str(self, n)
        return OPAQUE_STR

    def e_Name(self, n):
        if n.id in self.env:
            return self.env[n.id]
        g = self.theory.global_name(self, n.id)
        if g is not None:
            return g
        if n.id in EXC_BASES:
            return FuncV(n.id)
        if n.id in ("None", "True", "False"):
            return Conc({"None": None, "True": True, "False": False}[n.id])
        bound = self.fv.maybe_unbound(n.id)
        if bound:
            # read of a local that is not bound on this path: UnboundLocalError
            self.oblige(f"{self.fv.qual}:local-bound:{n.id}@{n.lineno}", False)
            raise PathEnd()
        prog = getattr(self.theory, "program", None)
        const = getattr(prog, "constants", {}).get(n.id) if prog is not None else None
        if const is not None:
            # a module-level constant display (tuple / set of literals or enum members): its value is the display
            c = const
            if isinstance(c, ast.Call):
                c = c.args[0]
            if isinstance(c, ast.Set):
                c = ast.copy_location(ast.Tuple(elts=c.elts, ctx=ast.Load()), c)
            return self.expr(c)
        return FuncV(n.id)

    def e_Tuple(self, n):
        items = []
        for e in n.elts:
            if isinstance(e, ast.Starred):
                v = self.expr(e.value)
                if isinstance(v, TupV):
                    items.extend(v.items)
                elif e is n.elts[-1] and hasattr(self.theory, "tuple_star_tail"):
                    return self.theory.tuple_star_tail(self, items, v)
                else:
                    raise Untranslatable("starred non-tuple")
            else:
                items.append(self.expr(e))
        return TupV(items)

    def e_List(self, n):
        if not n.elts:
            return self.theory.empty_list(self)
        return self.theory.list_display(self, [self.expr(e) for e in n.elts])

    def e_Dict(self, n):
        if any(k is None for k in n.keys) or not hasattr(self.theory, "dict_display"):
            raise Untranslatable(f"expression Dict at line {n.lineno}")
        return self.theory.dict_display(self, [self.expr(k) for k in n.keys], [self.expr(v) for v in n.values])

    def e_Attribute(self, n):
        recv = self.expr(n.value)
        return self.theory.getattr(self, recv, n.attr)

    def e_Subscript(self, n):
        recv = self.expr(n.value)
        if isinstance(n.slice, ast.Slice):
            lo = self.expr(n.slice.lower) if n.slice.lower else None
            hi = self.expr(n.slice.upper) if n.slice.upper else None
            if n.slice.step is not None:
                raise Untranslatable("slice step")
            return self.theory.getslice(self, recv, lo, hi)
        idx = self.expr(n.slice)
        if isinstance(recv, TupV) and isinstance(idx, Conc) and isinstance(idx.v, int):
            try:
                return recv.items[idx.v]
            except IndexError:
                raise PyRaise(ExcV("IndexError"))
        if isinstance(recv, Conc) and isinstance(idx, Conc):
            try:
                return Conc(recv.v[idx.v])
            except (IndexError, KeyError) as e:
                raise PyRaise(ExcV(type(e).__name__))
        return self.theory.getitem(self, recv, idx)

    def e_BoolOp(self, n):
        is_and = isinstance(n.op, ast.And)
        v = None
        for i, e in enumerate(n.values):
            v = self.expr(e)
            if i == len(n.values) - 1:
                return v
            t = self.branch(self.truth(v), "and" if is_and else "or")
            if is_and and not t:
                return v if not isinstance(v, Z) else Conc(False)
            if not is_and and t:
                return v if not isinstance(v, Z) else Conc(True)
        return v

    def e_UnaryOp(self, n):
        v = self.expr(n.operand)
        if isinstance(n.op, ast.Not):
            t = self.truth(v)
            if isinstance(t, bool):
                return Conc(not t)
            return Z("bool", z3.Not(t))
        if isinstance(n.op, ast.USub):
            if isinstance(v, Conc):
                return Conc(-v.v)
            if isinstance(v, Z) and v.kind == "int":
                return Z("int", -v.t)
        raise Untranslatable("unary op")

    def e_BinOp(self, n):
        return self.binop(n.op, self.expr(n.left), self.expr(n.right))

    def binop(self, op, a, b):
        if isinstance(a, OpaqueStr) or isinstance(b, OpaqueStr):
            return OPAQUE_STR
        if isinstance(a, Conc) and isinstance(b, Conc):
            import operator
            ops = {ast.Add: operator.add, ast.Sub: operator.sub, ast.Mult: operator.mul,
                   ast.FloorDiv: operator.floordiv, ast.Mod: operator.mod}
            f = ops.get(type(op))
            if f is None:
                raise Untranslatable("binop")
            try:
                return Conc(f(a.v, b.v))
            except TypeError:
                raise PyRaise(ExcV("TypeError"))
        ia, ib = self.as_int(a), self.as_int(b)
        if ia is not None and ib is not None:
            if isinstance(op, ast.Add):
                return Z("int", ia + ib)
            if isinstance(op, ast.Sub):
                return Z("int", ia - ib)
            if isinstance(op, ast.Mult):
                return Z("int", ia * ib)
        return self.theory.binop(self, op, a, b)

    def as_int(self, v):
        if isinstance(v, Conc) and isinstance(v.v, int) and not isinstance(v.v, bool):
            return z3.IntVal(v.v)
        if isinstance(v, Z) and v.kind == "int":
            return v.t
        return None

    def e_Compare(self, n):
        left = self.expr(n.left)
        result = None
        for op, rn in zip(n.ops, n.comparators):
            right = self.expr(rn)
            c = self.compare(op, left, right)
            if len(n.ops) == 1:
                return c
            t = self.truth(c)
            if isinstance(t, bool):
                if not t:
                    return Conc(False)
            else:
                result = t if result is None else z3.And(result, t)
            left = right
        if result is None:
            return Conc(True)
        return Z("bool", result)

    def compare(self, op, a, b):
        if isinstance(op, (ast.Is, ast.IsNot)):
            r = self.theory.is_(self, a, b)
            if isinstance(op, ast.IsNot):
                r = (not r) if isinstance(r, bool) else z3.Not(r)
            return Conc(r) if isinstance(r, bool) else Z("bool", r)
        if isinstance(op, (ast.In, ast.NotIn)):
            r = self.theory.contains(self, b, a)
            if isinstance(op, ast.NotIn):
                r = (not r) if isinstance(r, bool) else z3.Not(r)
            return Conc(r) if isinstance(r, bool) else Z("bool", r)
        if isinstance(op, (ast.Eq, ast.NotEq)):
            r = self.theory.eq(self, a, b)
            if isinstance(op, ast.NotEq):
                r = (not r) if isinstance(r, bool) else z3.Not(r)
            return Conc(r) if isinstance(r, bool) else Z("bool", r)
        ia, ib = self.as_int(a), self.as_int(b)
        if ia is not None and ib is not None:
            if isinstance(a, Conc) and isinstance(b, Conc):
                import operator
                f = {ast.Lt: operator.lt, ast.LtE: operator.le, ast.Gt: operator.gt,
                     ast.GtE: operator.ge}[type(op)]
                return Conc(f(a.v, b.v))
            f = {ast.Lt: lambda x, y: x < y, ast.LtE: lambda x, y: x <= y,
                 ast.Gt: lambda x, y: x > y, ast.GtE: lambda x, y: x >= y}[type(op)]
            return Z("bool", f(ia, ib))
        return self.theory.compare(self, op, a, b)

    def e_IfExp(self, n):
        if self.branch(self.truth(self.expr(n.test)), "ifexp"):
            return self.expr(n.body)
        return self.expr(n.orelse)

    def e_ListComp(self, n):
        return self.theory.comprehension(self, n)

    def e_GeneratorExp(self, n):
        return self.theory.comprehension(self, n)

    def e_Lambda(self, n):
        a = n.args
        if a.vararg or a.kwarg or a.kwonlyargs or a.defaults or a.posonlyargs:
            raise Untranslatable("lambda with defaults / star parameters")
        return LambdaV(n, dict(self.env))

    def s_FunctionDef(self, n):
        # a nested function: a closure over the variables bound so far (read-only use; called by the theory's call())
        a = n.args
        if a.vararg or a.kwarg or a.kwonlyargs or a.defaults or a.posonlyargs or n.decorator_list:
            raise Untranslatable("nested function with defaults / star parameters / decorators")
        if any(isinstance(c, (ast.Nonlocal, ast.Global, ast.Yield, ast.YieldFrom)) for c in ast.walk(n)):
            raise Untranslatable("nested function with nonlocal / global / yield")
        self.env[n.name] = LambdaV(n, self.env)       # (the live frame: later rebinding of a captured name is seen)

    def call_lambda(self, lam, args):
        if isinstance(lam.node, ast.FunctionDef):
            params = [p.arg for p in lam.node.args.args]
            if len(params) != len(args):
                raise PyRaise(ExcV("TypeError"))
            amap = dict(lam.env)
            amap.update(dict(zip(params, args)))
            return self.inline(lam.node, amap, lam.node.name)
        params = [p.arg for p in lam.node.args.args]
        if len(params) != len(args):
            raise PyRaise(ExcV("TypeError"))
        saved = dict(self.env)
        try:
            self.env.clear()
            self.env.update(lam.env)
            self.env.update(dict(zip(params, args)))
            return self.expr(lam.node.body)
        finally:
            self.env.clear()
            self.env.update(saved)

    def e_Yield(self, n):
        return self.theory.yield_(self, n)

    def e_Starred(self, n):
        raise Untranslatable("starred")

    def e_Call(self, n):
        # message-only calls
        f = n.func
        if isinstance(f, ast.Attribute) and isinstance(f.value, ast.Name):
            if (f.value.id, f.attr) in (("warnings", "warn"),) or f.value.id == "logging":
                return Conc(None)
        if isinstance(f, ast.Name) and f.id in ("warn", "print"):
            return Conc(None)
        if isinstance(f, ast.Attribute) and f.attr == "format" and isinstance(f.value, (ast.Constant, ast.JoinedStr)):
            if isinstance(f.value, ast.Constant) and hasattr(self.theory, "str_format") and not n.keywords:
                r = self.theory.str_format(self, f.value.value, n.args)
                if r is not None:
                    return r
            return OPAQUE_STR
        fv = self.expr(f)
        args = []
        for a in n.args:
            if isinstance(a, ast.Starred):
                v = self.expr(a.value)
                if isinstance(v, TupV):
                    args.extend(v.items)
                elif isinstance(v, Conc) and isinstance(v.v, (tuple, list, dict)):
                    args.extend(Conc(x) for x in v.v)
                else:
                    raise Untranslatable("starred argument of unknown length")
            else:
                args.append(self.expr(a))
        kwargs = {}
        for k in n.keywords:
            if k.arg is None:
                kwargs["**"] = self.expr(k.value)
            else:
                kwargs[k.arg] = self.expr(k.value)
        return self.call(fv, args, kwargs, n)

    def call(self, fv, args, kwargs, node=None):
        # exception constructors
        if isinstance(fv, FuncV) and fv.name in EXC_BASES:
            return ExcV(fv.name, args)
        return self.theory.call(self, fv, args, kwargs, node)

    # ---- truthiness --------------------------------------------------------------
    def truth(self, v):
        if isinstance(v, Conc):
            return bool(v.v)
        if isinstance(v, Z):
            if v.kind == "bool":
                return v.t
            if v.kind == "int":
                return v.t != 0
        if isinstance(v, TupV):
            return len(v.items) > 0
        return self.theory.truth(self, v)

    # ---- contract application at a call site -----------------------------------------
    def apply_contract(self, c, args, label, recv=None):
        """args: dict param -> Value.  Checks requires, forks over exits, havocs, assumes."""
        th = self.theory
        pre = th.view(self.st.snapshot(), recv)
        for nm, f in c.requires(pre, args):
            self.oblige(f"{self.fv.qual}:call:{label}:requires:{nm}", f)
            self.st.assume(f)
        exits = c.exits
        idx = self.path.choose(len(exits), f"exit:{label}") if len(exits) > 1 else 0
        ex = exits[idx]
        if ex.when is not None:
            w = ex.when(pre, args)
            if isinstance(w, bool):
                if not w:
                    raise PathEnd()
            else:
                if not self.path.cached(lambda: self.feasible(w)):
                    raise PathEnd()
                self.st.assume(w)
        self.st.ghost["call_args"] = args
        th.havoc_for_call(self, c, recv)
        post = th.view(self.st.snapshot(), recv)
        res = None
        if ex.kind == "return":
            res = ex.value if ex.value is not None else th.fresh_result(self, ex.res, label)
        if ex.effect is not None:
            ex.effect(self)
            post = th.view(self.st.snapshot(), recv)
        if ex.post is not None:
            for nm, f in ex.post(pre, post, args, res):
                self.st.assume(f)
                if hasattr(th, "learn"):
                    th.learn(self, f)
        th.after_call(self, c, pre, post)
        if ex.kind == "return":
            return res
        raise PyRaise(ExcV(ex.kind))

    def inline(self, fn, amap, label):
        """a callee that has no contract of its own (a small private helper, e.g. one extracted by a refactoring) is executed
        in place, with its own variable frame; recursion and deep nesting are refused"""
        depth = getattr(self, "inline_depth", 0)
        if depth >= 3:
            raise Untranslatable(f"inlining of {label}: too deep")
        saved = self.env
        self.env = dict(amap)
        self.inline_depth = depth + 1
        try:
            try:
                self.stmts(fn.body)
                res = Conc(None)
            except _Return as r:
                res = r.value
        finally:
            self.env = saved
            self.inline_depth = depth
        return res

    def lineno_rel(self):
        return getattr(self, "lineno", 0) - self.fv.fn.lineno


def _load(t):
    import copy
    t2 = copy.deepcopy(t)
    for c in ast.walk(t2):
        if hasattr(c, "ctx"):
            c.ctx = ast.Load()
    return t2


# ---------------------------------------------------------------------------------

class FuncVC:
    """Generates and discharges the obligations of one function against its contract."""

    def __init__(self, qual, fn, contract, theory, prover, cls_name=None, def_cls=None,
                 case_params=None, case_name=""):
        self.qual = qual
        self.fn = fn
        self.contract = contract
        self.theory = theory
        self.prover = prover
        self.cls_name = cls_name      # static class of self
        self.def_cls = def_cls        # class whose body defines fn
        self.case_params = case_params if case_params is not None else contract.params
        self.case_name = case_name
        self.replays = []
        self.loop_ord = loop_ordinals(fn)
        self.exit_ord = exit_ordinals(fn)
        self.locals = assigned_names(fn.body) | {a.arg for a in fn.args.args}
        self.max_paths = 400

    def is_generator(self):
        for c in ast.walk(self.fn):
            if isinstance(c, (ast.Yield, ast.YieldFrom)):
                return True
        return False

    def generator_result(self, ex):
        """A generator producer of the form `for T in S: yield E` denotes [E for T in S]."""
        body = [s for s in self.fn.body
                if not (isinstance(s, ast.Expr) and isinstance(s.value, ast.Constant))]
        if (len(body) == 1 and isinstance(body[0], ast.For) and not body[0].orelse
                and len(body[0].body) == 1 and isinstance(body[0].body[0], ast.Expr)
                and isinstance(body[0].body[0].value, ast.Yield) and body[0].body[0].value.value is not None):
            f = body[0]
            comp = ast.ListComp(elt=f.body[0].value.value,
                                generators=[ast.comprehension(target=f.target, iter=f.iter, ifs=[], is_async=0)])
            ast.copy_location(comp, f)
            ast.fix_missing_locations(comp)
            return ex.expr(comp)
        raise Untranslatable("generator not of the form `for T in S: yield E`")

    def maybe_unbound(self, name):
        return name in self.locals

    def run(self):
        """-> dict obligation name -> (status, backend, seconds, detail)."""
        results = {}
        t_start = time.time()

        def record(name, status, detail, dt):
            old = results.get(name)
            rank = {DISCHARGED: 0, UNDECIDED: 1, UNTRANSLATABLE: 2, FAILED: 3}
            if old is None or rank[status] > rank[old[0]]:
                results[name] = (status, detail, dt + (old[2] if old else 0))
            else:
                results[name] = (old[0], old[1], old[2] + dt)

        chooser = Chooser()
        npaths = 0
        exits_seen = set()
        for path in chooser.paths():
            npaths += 1
            if npaths > self.max_paths:
                record(f"{self.qual}:path-budget", UNTRANSLATABLE, f"more than {self.max_paths} paths", 0)
                break
            ex = Exec(self, path)
            ex.case_params = self.case_params
            try:
                self.theory.enter(ex, self)
                kind, res = "return", Conc(None)
                try:
                    if self.is_generator() and not getattr(self.contract, "generator_body", False):
                        raise _Return(self.generator_result(ex))
                    ex.stmts(self.fn.body)
                    ex.site = "fall-off-end"
                except _Return as r:
                    res = r.value
                except PyRaise as pr:
                    kind, res = pr.exc.cls, pr.exc
                except (_Break, _Continue):
                    raise Untranslatable("break/continue outside loop")
                self.check_exit(ex, kind, res)
                exits_seen.add(kind)
            except PathEnd:
                pass
            except Untranslatable as u:
                record(f"{self.qual}:translate", UNTRANSLATABLE, str(u), 0)
                continue
            for name, pc, goal in ex.obls:
                self.prover.last_model = None
                import os as _os
                if _os.environ.get("PYVC_DUMP") and _os.environ["PYVC_DUMP"] in name:
                    sv = self.prover._solver(1000, pc, [z3.Not(goal)])
                    with open("/tmp/pyvc_dump_%d.smt2" % len(results), "w") as fh:
                        fh.write("; " + name + " path " + " ".join(path.labels) + "\n" + sv.sexpr() + "\n(check-sat)\n")
                er = None
                if hasattr(self.theory, "refute"):
                    er = (lambda pc=pc, goal=goal: self.theory.refute(self.prover, pc, goal))
                status, detail, dt = self.prover.prove(pc, goal, early_refute=er)
                if status == FAILED and detail == "early-refuted":
                    mdl = self.prover.last_model
                    detail = ("counter-model of the VC found with the spec functions unfolded (sequence lengths <= 3): " +
                              ", ".join(f"{d.name()}={mdl[d]}" for d in list(mdl.decls())[:30] if d.arity() == 0))[:3000]
                if status != DISCHARGED:
                    detail = f"path[{' '.join(path.labels)}] " + detail
                if status == UNDECIDED and hasattr(self.theory, "refute"):
                    # counter-model search on the same VC (recursive definitions, bounded lengths)
                    t_r = time.time()
                    try:
                        mdl = self.theory.refute(self.prover, pc, goal)
                    except Exception as e:
                        mdl = None
                        detail += f" [refutation pass error: {e!r}]"
                    dt += time.time() - t_r
                    if mdl is not None:
                        status = FAILED
                        self.prover.last_model = mdl
                        detail = (f"path[{' '.join(path.labels)}] counter-model of the VC found with the spec functions "
                                  "unfolded (sequence lengths <= 3): " +
                                  ", ".join(f"{d.name()}={mdl[d]}" for d in list(mdl.decls())[:30]
                                            if d.arity() == 0))[:3000]
                if status == FAILED and (":inv-established:" in name or ":inv-preserved:" in name or ":variant-" in name):
                    # a loop invariant / variant is a proof artefact, not a statement of the property: when it stops holding the
                    # specification no longer fits the code (the loops were restructured, or the body changed) - undecided here;
                    # what the change does to the property is for the postconditions and the bounded companion to say
                    status = UNDECIDED
                    detail = "the loop specification does not fit the code any more: " + detail
                if status == FAILED and _mentions_approximation(pc, goal):
                    # the VC speaks about the outcome of a construct the engine over-approximates (any()/all() over a
                    # collection it knows nothing about): a counter-model may choose an outcome the code cannot produce
                    status = UNDECIDED
                    detail = "the counter-model may rest on an over-approximated any()/all(): " + detail
                if status == FAILED and self.contract.replayer is not None and self.prover.last_model is not None:
                    try:
                        rp = self.contract.replayer(self.prover.last_model, ex.args, ex)
                    except Exception as e:      # a replay problem is never a violation
                        rp = None
                        detail += f" [replay error: {e!r}]"
                    if rp:
                        self.replays.append((name, rp))
                record(name, status, detail, dt)
        if any(st == UNDECIDED and "the loop specification does not fit" in det for st, det, _ in results.values()):
            # the loop specifications are out of step with the code: a failed postcondition of the same function was derived from
            # invariants that no longer describe its loops and cannot be attributed to the property either
            replayed = {n for n, _ in self.replays}
            for nm, (st, det, dt) in list(results.items()):
                if st == FAILED and nm not in replayed:
                    results[nm] = (UNDECIDED, "(loop specifications of this function do not fit the code) " + det, dt)
        self.paths = npaths
        self.exits_seen = exits_seen
        self.seconds = time.time() - t_start
        return results

    def check_exit(self, ex, kind, res):
        c = self.contract
        cands = [e for e in c.exits if e.kind == kind]
        if not cands and kind != "return":
            cands = [e for e in c.exits if e.kind != "return" and exc_isa(kind, e.kind)]
        if not cands:
            ex.oblige(f"{self.qual}:exit-not-permitted:{kind}", False)
            return
        pre = ex.pre
        post = self.theory.view(ex.st.snapshot(), ex.args.get("self"))
        if c.hints is not None:
            for h in c.hints(ex, kind, res):
                ex.st.assume(h)
        live = []
        for e in cands:
            if e.value is not None and not (isinstance(res, Conc) and res.v is e.value.v):
                continue
            w = e.when(pre, ex.args) if e.when is not None else True
            if isinstance(w, bool) and not w:
                continue
            live.append((e, w))
        if not live:
            ex.oblige(f"{self.qual}:exit-not-permitted:{kind}", False)
            return
        ws = [w for _, w in live]
        if not any(isinstance(w, bool) for w in ws):
            ex.oblige(f"{self.qual}:{kind}:only-when", z3.Or(*ws) if len(ws) > 1 else ws[0])
        else:
            ex.oblige(f"{self.qual}:{kind}:exit-permitted", True)
        conforming = {}
        if kind == "return":
            for e, w in live:
                conforming[id(e)] = e.value is not None or bool(self.theory.result_conforms(ex, e.res, res))
            if not any(conforming.values()):
                ex.oblige(f"{self.qual}:return:result-kind", False)
                return
        for e, w in live:
            guard = (lambda f: f) if isinstance(w, bool) else (lambda f, w=w: z3.Implies(w, f))
            r = res
            if kind == "return" and e.value is None:
                if not conforming[id(e)]:
                    # another permitted exit matches the kind of value returned; this one must not apply
                    if not isinstance(w, bool):
                        ex.oblige(f"{self.qual}:{e.name}:result-kind", z3.Not(w))
                    continue
                ex.oblige(f"{self.qual}:{e.name}:result-kind", True)
                r = self.theory.coerce_result(ex, e.res, res)
            if e.post is not None:
                for nm, f in e.post(pre, post, ex.args, r):
                    ex.oblige(f"{self.qual}:{e.name}:{nm}", guard(f))
