"""Driver: resolve contracts against the current source, generate and discharge obligations."""
import ast
import os
import time

from .core import FuncVC, Prover, Contract, Untranslatable
from .source import Program
from ..harness import DISCHARGED, FAILED, UNDECIDED, UNTRANSLATABLE

STDLIB = "_collections_abc"


def resolve(program, std_program, c):
    """Bind contract c to the AST it speaks about; returns None or an error string."""
    target = c.target
    parts = target.split(".")
    # function?
    try:
        ci, fn = program.function(target)
    except KeyError:
        ci, fn = None, None
    if fn is not None and ci is None:
        c.fn, c.is_function, c.def_cls, c.cls_name = fn, True, None, None
        return None
    if fn is not None:
        c.fn, c.is_function, c.def_cls, c.cls_name = fn, False, ci.name, c.cls_name or ci.name
        return None
    # Class.method resolved through the MRO (inherited or aliased)
    mname, cname = parts[-1], parts[-2]
    if cname not in program.classes:
        return f"class {cname} not found"
    dcls, node = program.find_method(cname, mname)
    if node is None:
        return f"{cname}.{mname} does not resolve to a function under contract (MRO: {program.mro(cname)})"
    if isinstance(node, ast.FunctionDef):
        c.fn, c.is_function, c.def_cls, c.cls_name = node, False, dcls, cname
        return None
    # alias expression, e.g. abc.MutableMapping.pop
    if isinstance(node, ast.Attribute) and isinstance(node.value, ast.Attribute):
        scls, sm = node.value.attr, node.attr
        sci = std_program.classes.get(scls) if std_program else None
        if sci is not None:
            d2, n2 = std_program.find_method(scls, sm)
            if isinstance(n2, ast.FunctionDef):
                c.fn, c.is_function, c.def_cls, c.cls_name = n2, False, d2, cname
                c.alias_of = f"{STDLIB}.{d2}.{sm}"
                return None
    return f"{cname}.{mname} is bound to an expression the extractor does not resolve: {ast.dump(node)[:80]}"


def verify_contracts(section, contracts, theory_cls, mods, timeout_ms=20000, std=False, only=None, jobs=16):
    """Verify every non-assumed contract; record obligations in `section`."""
    program = Program(mods)
    std_program = Program([STDLIB]) if std else None
    registry = {}
    for c in contracts:
        registry[c.target] = c
    theory = theory_cls(program, registry)
    theory.std_program = std_program
    prover = Prover(theory.axioms(), timeout_ms=timeout_ms, expander=getattr(theory, "expand", None))
    theory.prover = prover
    prover.feasible_axioms = getattr(theory, "feasible_axioms", True)
    prover.candidate_models = getattr(theory, "candidate_models", False)
    for c in contracts:
        err = resolve(program, std_program, c)
        if err:
            section.obl(f"{c.target}:resolves", FAILED, "ground", 0, err, function=c.target)
            c.fn = None
    tasks = []
    for c in contracts:
        if c.fn is None:
            continue
        if c.assumed:
            section.assumptions.append(f"assumed contract: {c.target} ({c.note})")
            continue
        if only and only not in c.target:
            continue
        cases = c.cases if getattr(c, "cases", None) else [("", c.params)]
        for cname, params in cases:
            tasks.append((c, cname, params))
    global _TASKS, _THEORY, _PROVER
    _TASKS, _THEORY, _PROVER = tasks, theory, prover
    if jobs > 1 and len(tasks) > 1:
        import multiprocessing as mp
        ctx = mp.get_context("fork")
        with ctx.Pool(min(jobs, len(tasks))) as pool:
            outs = pool.map(_run_task, range(len(tasks)), chunksize=1)
    else:
        outs = [_run_task(i) for i in range(len(tasks))]
    backend = f"smt:z3-{_z3v()}"
    for (c, cname, params), (res, replays, secs) in zip(tasks, outs):
        for name, (status, detail, dt) in sorted(res.items()):
            section.obl(name, status, backend, dt, detail, function=c.target)
        for oname, (key, what, data) in replays:
            section.violation(key, what, data, obligation=oname, concrete=True)
        section.seconds += secs
    return program, theory


_TASKS = _THEORY = _PROVER = None


def _run_task(i):
    c, cname, params = _TASKS[i]
    qual = c.target + (f"[{cname}]" if cname else "")
    _PROVER.time = 0.0
    _t0 = time.time()
    params = dict(params)
    cls_name = params.pop("__cls__", c.cls_name)       # verify an inherited body for a subclass receiver
    fv = FuncVC(qual, c.fn, c, _THEORY, _PROVER, cls_name=cls_name, def_cls=c.def_cls,
                case_params=params, case_name=cname)
    try:
        res = fv.run()
    except Untranslatable as u:
        res = {f"{qual}:translate": (UNTRANSLATABLE, str(u), 0)}
    except Exception as e:          # an engine crash on one function is reported, never a verdict
        import traceback
        res = {f"{qual}:engine-error": (UNTRANSLATABLE, "engine error: " + traceback.format_exc()[-1500:], 0)}
    if not res:
        res = {f"{qual}:no-obligations": (FAILED, "vacuity guard: the function generated no obligation", 0)}
    if os.environ.get("PYVC_PROFILE"):
        print(f"PROFILE {time.time() - _t0:7.1f}s solver={_PROVER.time:6.1f}s queries={_PROVER.queries} paths={getattr(fv, 'paths', '?')} {qual}", flush=True)
    return res, list(getattr(fv, "replays", [])), _PROVER.time


def _z3v():
    import z3
    return z3.get_version_string()
