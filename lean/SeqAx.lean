/-
  The sequence-theory axioms used by pyvc's T_seq (vf/pyvc/seqtheory.py, `axiom_list`,
  `ax_setspec_present`, `ax_proj_first`) stated as theorems about `List (K × V)` and proved.
  The SMT side uses uninterpreted functions constrained only by these statements, so the
  sequence theory is not part of the trusted base once this file checks.
  Names are matched against the axiom table by tools in the thorough tier (vf/props/lean.py).
-/
set_option autoImplicit false
set_option linter.unusedSectionVars false
set_option linter.unnecessarySimpa false

universe u v
variable {K : Type u} {V : Type v} [DecidableEq K]

namespace SeqAx

def proj (l : List (K × V)) (k : K) : List V := (l.filter (fun p => p.1 = k)).map (fun p => p.2)
def dropk (l : List (K × V)) (k : K) : List (K × V) := l.filter (fun p => p.1 ≠ k)
def keys (l : List (K × V)) : List K := l.map (fun p => p.1)
def vals (l : List (K × V)) : List V := l.map (fun p => p.2)

def pos : List (K × V) → K → Nat → List Nat
  | [], _, _ => []
  | p :: t, k, o => (if p.1 = k then [o] else []) ++ pos t k (o + 1)

/-- prefix of `l` before the first pair keyed `k` -/
def upto : List (K × V) → K → List (K × V)
  | [], _ => []
  | p :: t, k => if p.1 = k then [] else p :: upto t k

/-- suffix of `l` after the first pair keyed `k` -/
def after : List (K × V) → K → List (K × V)
  | [], _ => []
  | p :: t, k => if p.1 = k then t else after t k

/-- result of `m[k] = v` on the list of pairs -/
def setspec (l : List (K × V)) (k : K) (v : V) : List (K × V) :=
  if (proj l k).length = 0 then l ++ [(k, v)] else upto l k ++ [(k, v)] ++ dropk (after l k) k

def foldset (l : List (K × V)) (s : List (K × V)) : List (K × V) :=
  s.foldl (fun acc p => setspec acc p.1 p.2) l

-- homomorphisms -------------------------------------------------------------------
theorem proj_nil (k : K) : proj ([] : List (K × V)) k = [] := rfl
theorem proj_unit (p : K × V) (k : K) : proj [p] k = if p.1 = k then [p.2] else [] := by
  unfold proj; by_cases h : p.1 = k <;> simp [h]
theorem proj_append (a b : List (K × V)) (k : K) : proj (a ++ b) k = proj a k ++ proj b k := by
  simp [proj, List.filter_append, List.map_append]

theorem dropk_nil (k : K) : dropk ([] : List (K × V)) k = [] := rfl
theorem dropk_unit (p : K × V) (k : K) : dropk [p] k = if p.1 = k then [] else [p] := by
  unfold dropk; by_cases h : p.1 = k <;> simp [h]
theorem dropk_append (a b : List (K × V)) (k : K) : dropk (a ++ b) k = dropk a k ++ dropk b k := by
  simp [dropk, List.filter_append]

theorem keys_nil : keys ([] : List (K × V)) = [] := rfl
theorem vals_nil : vals ([] : List (K × V)) = [] := rfl
theorem keys_unit (p : K × V) : keys [p] = [p.1] := rfl
theorem vals_unit (p : K × V) : vals [p] = [p.2] := rfl
theorem keys_append (a b : List (K × V)) : keys (a ++ b) = keys a ++ keys b := by simp [keys]
theorem vals_append (a b : List (K × V)) : vals (a ++ b) = vals a ++ vals b := by simp [vals]

theorem pos_nil (k : K) (o : Nat) : pos ([] : List (K × V)) k o = [] := rfl
theorem pos_unit (p : K × V) (k : K) (o : Nat) : pos [p] k o = if p.1 = k then [o] else [] := by
  simp [pos]
theorem pos_append (a b : List (K × V)) (k : K) (o : Nat) :
    pos (a ++ b) k o = pos a k o ++ pos b k (o + a.length) := by
  induction a generalizing o with
  | nil => simp [pos]
  | cons p t ih =>
    have e : o + 1 + t.length = o + (t.length + 1) := by omega
    simp only [List.cons_append, pos, ih, List.append_assoc, List.length_cons, e]

-- derived lemmas --------------------------------------------------------------------
theorem proj_cons (p : K × V) (t : List (K × V)) (k : K) :
    proj (p :: t) k = if p.1 = k then p.2 :: proj t k else proj t k := by
  unfold proj; by_cases h : p.1 = k <;> simp [h]
theorem dropk_cons (p : K × V) (t : List (K × V)) (k : K) :
    dropk (p :: t) k = if p.1 = k then dropk t k else p :: dropk t k := by
  unfold dropk; by_cases h : p.1 = k <;> simp [h]

theorem proj_dropk_same (a : List (K × V)) (k : K) : proj (dropk a k) k = [] := by
  induction a with
  | nil => rfl
  | cons p t ih =>
    by_cases h : p.1 = k
    · simpa [dropk, proj, h] using ih
    · simpa [dropk, proj, h] using ih

theorem proj_dropk_other (a : List (K × V)) (k k2 : K) (h : k ≠ k2) : proj (dropk a k) k2 = proj a k2 := by
  induction a with
  | nil => rfl
  | cons p t ih =>
    by_cases h1 : p.1 = k
    · have h2 : ¬ p.1 = k2 := by intro e; exact h (h1 ▸ e)
      simp only [dropk_cons, proj_cons, if_pos h1, if_neg h2, ih]
    · by_cases h2 : p.1 = k2
      · simp only [dropk_cons, proj_cons, if_neg h1, if_pos h2, ih]
      · simp only [dropk_cons, proj_cons, if_neg h1, if_neg h2, ih]

theorem dropk_of_proj_empty (a : List (K × V)) (k : K) (h : (proj a k).length = 0) : dropk a k = a := by
  induction a with
  | nil => rfl
  | cons p t ih =>
    by_cases h1 : p.1 = k
    · simp [proj, h1] at h
    · have : (proj t k).length = 0 := by simpa [proj, h1] using h
      simp [dropk, h1]
      simpa [dropk] using ih this

theorem length_dropk_le (a : List (K × V)) (k : K) : (dropk a k).length ≤ a.length := by
  unfold dropk; exact List.length_filter_le _ _
theorem length_proj_le (a : List (K × V)) (k : K) : (proj a k).length ≤ a.length := by
  unfold proj; simp; exact List.length_filter_le _ _
theorem length_keys (a : List (K × V)) : (keys a).length = a.length := by simp [keys]
theorem length_vals (a : List (K × V)) : (vals a).length = a.length := by simp [vals]
theorem keys_get (a : List (K × V)) (i : Nat) (h : i < a.length) :
    (keys a)[i]'(by simpa [keys] using h) = (a[i]).1 := by simp [keys]
theorem vals_get (a : List (K × V)) (i : Nat) (h : i < a.length) :
    (vals a)[i]'(by simpa [vals] using h) = (a[i]).2 := by simp [vals]

-- membership (List.Mem is the homomorphism into (Prop, ∨)) --------------------------------
theorem mem_nil {α : Type u} (x : α) : ¬ x ∈ ([] : List α) := List.not_mem_nil
theorem mem_unit {α : Type u} (x y : α) : x ∈ [y] ↔ y = x := by simp [eq_comm]
theorem mem_append {α : Type u} (a b : List α) (x : α) : x ∈ a ++ b ↔ x ∈ a ∨ x ∈ b := List.mem_append
theorem memV_proj (a : List (K × V)) (k : K) (v : V) : v ∈ proj a k ↔ (k, v) ∈ a := by
  unfold proj
  constructor
  · intro h
    rcases List.mem_map.mp h with ⟨p, hp, rfl⟩
    have := List.mem_filter.mp hp
    have hk : p.1 = k := by simpa using this.2
    cases p with
    | mk a1 b1 => simp at hk; subst hk; exact this.1
  · intro h
    exact List.mem_map.mpr ⟨(k, v), List.mem_filter.mpr ⟨h, by simp⟩, rfl⟩
theorem memK_keys (a : List (K × V)) (k : K) : k ∈ keys a ↔ (proj a k).length > 0 := by
  induction a with
  | nil => simp [keys, proj]
  | cons p t ih =>
    by_cases h : p.1 = k
    · rw [proj_cons, if_pos h]; simp [keys, h]
    · have h' : ¬ k = p.1 := fun e => h e.symm
      rw [proj_cons, if_neg h, ← ih]; simp [keys, h']

-- assignment spec ---------------------------------------------------------------------------
theorem setspec_absent (a : List (K × V)) (k : K) (v : V) (h : (proj a k).length = 0) :
    setspec a k v = a ++ [(k, v)] := by simp [setspec, h]

theorem upto_after_split (a b : List (K × V)) (p : K × V) (k : K)
    (ha : (proj a k).length = 0) (hp : p.1 = k) :
    upto (a ++ [p] ++ b) k = a ∧ after (a ++ [p] ++ b) k = b := by
  induction a with
  | nil => simp [upto, after, hp]
  | cons q t ih =>
    by_cases hq : q.1 = k
    · simp [proj, hq] at ha
    · have ht : (proj t k).length = 0 := by simpa [proj, hq] using ha
      have := ih ht
      simp [upto, after, hq] at this ⊢
      exact this

theorem setspec_present (a b : List (K × V)) (p : K × V) (k : K) (v : V)
    (ha : (proj a k).length = 0) (hp : p.1 = k) :
    setspec (a ++ [p] ++ b) k v = a ++ [(k, v)] ++ dropk b k := by
  have hne : ¬ (proj (a ++ [p] ++ b) k).length = 0 := by
    rw [proj_append, proj_append, proj_unit, if_pos hp]; simp
  have hs := upto_after_split a b p k ha hp
  simp only [setspec, hne, if_false, hs.1, hs.2]

theorem proj_first (a b : List (K × V)) (p : K × V) (k : K)
    (ha : (proj a k).length = 0) (hp : p.1 = k) :
    (proj (a ++ [p] ++ b) k).head? = some p.2 := by
  have : proj a k = [] := List.eq_nil_of_length_eq_zero ha
  rw [proj_append, proj_append, proj_unit, if_pos hp, this]; simp

theorem foldset_nil (a : List (K × V)) : foldset a [] = a := rfl
theorem foldset_snoc (a b : List (K × V)) (p : K × V) :
    foldset a (b ++ [p]) = setspec (foldset a b) p.1 p.2 := by
  simp [foldset, List.foldl_append]

end SeqAx
